"""Check driver: shards cases over worker processes, classifies violations against the
committed known-findings file, writes evidence, sets the exit code.

  python -m vf.run <ID> --tier quick|thorough [--jobs N] [--replay file] [--limit K]
  python -m vf.run --setup
  python -m vf.run --all [--tier quick]

Exit codes: 0 held on everything explored (KNOWN-FINDING lines may be printed),
1 violation (a `VIOLATION property=<id> replay=<path>` line is printed),
2 inconclusive (deciding monitor not reached often enough, timeouts, harness error).
"""
import argparse
import hashlib
import importlib
import json
import os
import signal
import subprocess
import sys
import time
import traceback

from . import boot

VERIF = boot.VERIF
EVID = os.environ.get("VF_EVIDENCE_DIR") or os.path.join(VERIF, "evidence")
REPLAYS = os.environ.get("VF_REPLAY_DIR") or os.path.join(VERIF, "replays")
WORK = os.path.join(VERIF, ".work")
KNOWN = os.path.join(VERIF, "known_findings.json")

ALL_IDS = ["C%02d" % i for i in range(1, 21)]


class CaseTimeout(BaseException):
    pass


def _alarm(signum, frame):
    raise CaseTimeout()


def load_prop(pid):
    return importlib.import_module("vf.props." + pid)


def jdefault(o):
    import numpy as np

    if isinstance(o, (np.integer,)):
        return int(o)
    if isinstance(o, (np.floating,)):
        return float(o)
    if isinstance(o, (np.bool_,)):
        return bool(o)
    if isinstance(o, np.ndarray):
        return o.tolist()
    if isinstance(o, (set, frozenset)):
        return sorted(o)
    return repr(o)


def dumps(o, **kw):
    return json.dumps(o, default=jdefault, **kw)


# ------------------------------------------------------------------------------ worker


def worker_main(pid, tier, seed, shard, nshards, outfile):
    mod = load_prop(pid)
    boot.silence_logging()
    cases = mod.gen_cases(tier, seed)
    timeout = getattr(mod, "CASE_TIMEOUT", {"quick": 60, "thorough": 120})[tier]
    signal.signal(signal.SIGALRM, _alarm)
    import faulthandler

    with open(outfile, "w") as out:
        for idx in range(shard, len(cases), nshards):
            case = cases[idx]
            t0 = time.time()
            faulthandler.dump_traceback_later(timeout * 3 + 30, exit=True)
            signal.setitimer(signal.ITIMER_REAL, timeout)
            try:
                res = mod.run_case(case)
            except CaseTimeout:
                res = {"inconclusive": "case timeout after %ss" % timeout}
            except Exception:
                res = {"harness_error": traceback.format_exc()}
            finally:
                signal.setitimer(signal.ITIMER_REAL, 0)
                faulthandler.cancel_dump_traceback_later()
            res["idx"] = idx
            res["t"] = round(time.time() - t0, 3)
            out.write(dumps(res) + "\n")
            out.flush()


# ------------------------------------------------------------------------------ parent


def load_known():
    if not os.path.exists(KNOWN):
        return []
    with open(KNOWN) as f:
        return json.load(f).get("findings", [])


def match_known(pid, viol, known):
    key = viol.get("key", {})
    for ent in known:
        if ent.get("property") != pid or ent.get("status") != "open":
            continue
        m = ent.get("match", {})
        if m and all(key.get(k) == v for k, v in m.items()):
            return ent
    return None


def case_hash(case):
    return hashlib.sha1(dumps(case, sort_keys=True).encode()).hexdigest()[:12]


def write_replay(pid, case, viol):
    d = os.path.join(REPLAYS, pid)
    os.makedirs(d, exist_ok=True)
    path = os.path.join(d, case_hash(case) + ".json")
    with open(path, "w") as f:
        f.write(dumps({"property": pid, "case": case, "violation": viol}, indent=1))
    return path


def merge(agg, res):
    agg["evals"] += int(res.get("evals", 1))
    for k, v in res.get("ctr", {}).items():
        agg["ctr"][k] = agg["ctr"].get(k, 0) + v
    for k, v in res.get("sets", {}).items():
        agg["sets"].setdefault(k, set()).update(v)
    for k, v in res.get("maxes", {}).items():
        if v is not None:
            agg["maxes"][k] = max(agg["maxes"].get(k, v), v)
    for k, h in res.get("hist", {}).items():
        hh = agg["hist"].setdefault(k, {})
        for b, c in h.items():
            hh[b] = hh.get(b, 0) + c
    agg["nt_keys"].update(res.get("nt_keys", []))
    agg["nt_n"] += int(res.get("nt_n", 0))
    if "sample" in res and len(agg["samples"]) < 4:
        agg["samples"].append(res["sample"])


def run_check(pid, tier, seed, jobs, limit=None):
    t0 = time.time()
    mod = load_prop(pid)
    cases = mod.gen_cases(tier, seed)
    if limit:
        cases = cases[:limit]
    ncases = len(cases)
    os.makedirs(os.path.join(WORK, pid), exist_ok=True)
    nshards = max(1, min(ncases, jobs * getattr(mod, "SHARDS_PER_JOB", 3)))
    env = dict(os.environ)
    env["VERIF_SEED"] = str(seed)
    env["PYTHONHASHSEED"] = "0"
    cap = getattr(mod, "SHARD_CAP", {"quick": 900, "thorough": 7200})[tier]
    pending = list(range(nshards))
    running = {}
    outfiles = {}
    shard_fail = []
    while pending or running:
        while pending and len(running) < jobs:
            s = pending.pop(0)
            of = os.path.join(WORK, pid, "%s.%d.%d.jsonl" % (tier, os.getpid(), s))
            outfiles[s] = of
            cmd = [sys.executable, "-B", "-m", "vf.run", "--worker", pid, tier, str(seed),
                   str(s), str(nshards), of]
            if limit:
                cmd += ["--limit", str(limit)]
            p = subprocess.Popen(cmd, cwd=VERIF, env=env, stdout=subprocess.DEVNULL,
                                 stderr=subprocess.PIPE)
            running[s] = (p, time.time())
        time.sleep(0.05)
        for s in list(running):
            p, ts = running[s]
            rc = p.poll()
            if rc is None:
                if time.time() - ts > cap:
                    p.kill()
                    p.wait()
                    shard_fail.append((s, "wall-clock cap %ss" % cap, ""))
                    del running[s]
                continue
            err = p.stderr.read().decode(errors="replace") if p.stderr else ""
            if rc != 0:
                shard_fail.append((s, "worker exit %s" % rc, err[-2000:]))
            del running[s]

    agg = {"evals": 0, "ctr": {}, "sets": {}, "maxes": {}, "hist": {}, "nt_keys": set(),
           "nt_n": 0, "samples": []}
    seen = set()
    viols = []
    inconcl = []
    herrs = []
    slow = []
    for s, of in outfiles.items():
        if not os.path.exists(of):
            continue
        with open(of) as f:
            for line in f:
                try:
                    res = json.loads(line)
                except Exception:
                    continue
                seen.add(res["idx"])
                if "harness_error" in res:
                    herrs.append((res["idx"], res["harness_error"]))
                    continue
                if res.get("inconclusive"):
                    inconcl.append((res["idx"], res["inconclusive"]))
                merge(agg, res)
                for v in res.get("viol", []):
                    viols.append((res["idx"], v))
                slow.append((res.get("t", 0), res["idx"]))
        os.unlink(of)
    missing = [i for i in range(ncases) if i not in seen]

    known = load_known()
    known_hits = {}
    new_viol = []
    for idx, v in viols:
        ent = match_known(pid, v, known)
        if ent is not None:
            known_hits.setdefault(ent["id"], [ent, 0])
            known_hits[ent["id"]][1] += 1
        else:
            new_viol.append((idx, v))

    fin = mod.finalize(agg, tier)
    floors = fin.get("floors", {})
    floor_fail = []
    for name, fl in floors.items():
        obs = agg["ctr"].get(name, 0)
        if obs < fl:
            floor_fail.append("%s observed %d < floor %d" % (name, obs, fl))

    status = "held"
    reasons = []
    if herrs:
        reasons.append("%d harness errors" % len(herrs))
    if shard_fail:
        reasons.append("%d worker shards failed: %s" % (len(shard_fail), shard_fail[0][1]))
    if missing:
        reasons.append("%d cases never reported" % len(missing))
    for idx, why in inconcl[:5]:
        print("  inconclusive case %d: %s | %s" % (idx, why, dumps(cases[idx])[:300]))
    if len(inconcl) > max(2, 0.02 * ncases):
        reasons.append("%d cases inconclusive (timeouts)" % len(inconcl))
    reasons += floor_fail
    if reasons:
        status = "inconclusive"
    if new_viol:
        status = "violated"

    nt = len(agg["nt_keys"]) + agg["nt_n"]
    cov = {
        "evaluations": agg["evals"],
        "distinct_nontrivial": nt,
        "rule": fin.get("rule", ""),
        "samples": agg["samples"] or [{"note": "no sample recorded"}],
        "cases": ncases,
        "counters": dict(sorted(agg["ctr"].items())),
        "observed_sets": {k: sorted(v)[:200] for k, v in sorted(agg["sets"].items())},
        "maxima": agg["maxes"],
        "histograms": agg["hist"],
        "floors": floors,
        "inconclusive_cases": len(inconcl),
        "known_findings_matched": {k: v[1] for k, v in known_hits.items()},
        "verdict": status,
        "verdict_reasons": reasons,
    }
    if "exhaustive" in fin:
        cov["exhaustive"] = bool(fin["exhaustive"])
    cov.update(fin.get("extra", {}))
    ev = {
        "property_id": pid,
        "tier": tier,
        "seed": int(seed),
        "level": getattr(mod, "LEVEL", "exploration"),
        "coverage": cov,
        "assumptions": fin.get("assumptions", []) + COMMON_ASSUMPTIONS,
        "wall_s": round(time.time() - t0, 2),
        "violations": len(new_viol),
    }
    os.makedirs(EVID, exist_ok=True)
    with open(os.path.join(EVID, pid + ".json"), "w") as f:
        f.write(dumps(ev, indent=1))

    # ---- report
    print("%s tier=%s seed=%s cases=%d evaluations=%d distinct_nontrivial=%d wall=%.1fs"
          % (pid, tier, seed, ncases, agg["evals"], nt, time.time() - t0))
    for k, v in sorted(agg["ctr"].items()):
        print("  %-46s %d" % (k, v))
    for ent, cnt in known_hits.values():
        print("KNOWN-FINDING: property=%s %s [%s, %d occurrences]" % (pid, ent["what"], ent["id"], cnt))
    for idx, tb in herrs[:3]:
        print("HARNESS-ERROR case %d:\n%s" % (idx, tb))
    for s, why, err in shard_fail[:3]:
        print("SHARD-FAILURE shard %d: %s\n%s" % (s, why, err))
    if new_viol:
        sigs = {}
        for idx, v in new_viol:
            kk = v.get("key", {})
            short = {k: kk[k] for k in ("kind", "exc", "site", "solver", "component", "quantity", "how") if k in kk}
            sg = dumps(short or kk, sort_keys=True)
            sigs[sg] = sigs.get(sg, 0) + 1
        for sg, cnt in sorted(sigs.items(), key=lambda kv: -kv[1])[:25]:
            print("  viol-key x%-5d %s" % (cnt, sg))
        shown = set()
        for idx, v in new_viol:
            path = write_replay(pid, cases[idx], v)
            sig = v.get("what", "")[:60]
            if len(shown) < 8 and sig not in shown:
                shown.add(sig)
                print("  violation: %s | key=%s" % (v.get("what"), dumps(v.get("key", {}))))
                print("VIOLATION property=%s replay=%s" % (pid, path))
        print("%s: VIOLATED (%d violating observations)" % (pid, len(new_viol)))
        return 1
    if status == "inconclusive":
        print("INCONCLUSIVE property=%s reason=%s" % (pid, "; ".join(reasons)))
        return 2
    print("%s: held on everything explored" % pid)
    return 0


COMMON_ASSUMPTIONS = [
    "runtime monitoring: the verdict covers only the executions produced by this run",
    "numpy/scipy/SuperLU arithmetic and CPython are trusted",
    "the dense reference model vf/ref.py is trusted (validated by its own finite-difference self-checks)",
    "step controls Optimizing/BoxReduced and linear solvers Cholesky/MA57/MUMPS/SSIDS need libraries "
    "absent from this image and are outside every check; precision stays Double",
]


def replay(pid, path):
    mod = load_prop(pid)
    boot.silence_logging()
    with open(path) as f:
        rp = json.load(f)
    res = mod.run_case(rp["case"])
    known = load_known()
    rc = 0
    for v in res.get("viol", []):
        ent = match_known(pid, v, known)
        if ent:
            print("KNOWN-FINDING: property=%s %s" % (pid, ent["what"]))
        else:
            print("  violation: %s | key=%s" % (v.get("what"), dumps(v.get("key", {}))))
            if v.get("detail"):
                print("  detail: %s" % dumps(v["detail"])[:3000])
            print("VIOLATION property=%s replay=%s" % (pid, path))
            rc = 1
    if "harness_error" in res:
        print(res["harness_error"])
        rc = rc or 2
    if rc == 0:
        print("%s replay: no violation" % pid)
    return rc


def main(argv=None):
    argv = list(sys.argv[1:] if argv is None else argv)
    if argv and argv[0] == "--worker":
        pid, tier, seed, shard, nshards, outfile = argv[1:7]
        if "--limit" in argv:
            lim = int(argv[argv.index("--limit") + 1])
            mod = load_prop(pid)
            orig = mod.gen_cases
            mod.gen_cases = lambda t, s: orig(t, s)[:lim]
        boot.ensure_deps()
        worker_main(pid, tier, int(seed), int(shard), int(nshards), outfile)
        return 0
    ap = argparse.ArgumentParser()
    ap.add_argument("pid", nargs="?")
    ap.add_argument("--tier", default=None)
    ap.add_argument("--jobs", type=int, default=int(os.environ.get("VF_JOBS", os.cpu_count() or 4)))
    ap.add_argument("--replay")
    ap.add_argument("--limit", type=int)
    ap.add_argument("--setup", action="store_true")
    ap.add_argument("--all", action="store_true")
    a = ap.parse_args(argv)
    boot.ensure_deps(quiet=not a.setup)
    if a.setup:
        import icontract  # noqa: F401

        print("setup ok: icontract importable, repo at", boot.REPO)
        return 0
    tier = a.tier or os.environ.get("VERIF_TIER") or "quick"
    seed = int(os.environ.get("VERIF_SEED", "0"))
    if a.all:
        rc = 0
        for pid in ALL_IDS:
            try:
                load_prop(pid)
            except ImportError:
                continue
            r = run_check(pid, tier, seed, a.jobs)
            rc = max(rc, r) if r != 2 or rc == 0 else rc
        return rc
    if not a.pid:
        ap.error("property id required")
    if a.replay:
        return replay(a.pid, a.replay)
    return run_check(a.pid, tier, seed, a.jobs, a.limit)


if __name__ == "__main__":
    sys.exit(main())
