"""Monitors: everything that observes a running solve from outside the repository.

* RecordingProblem  -- wraps the user's Problem, logs every callback call (component,
                       argument, in-box flag, pygradflow call-site chain), optional faults
* FaultLinearSolverFactory -- substituted for pygradflow.linear_solver.linear_solver
* VirtualClock      -- substituted for the `time` module inside pygradflow.timer
* MonitoredSolver   -- Solver subclass recording every trial step, penalty decision,
                       callback and solver.rho
* run_solve         -- one monitored solve with outcome classification
"""
import os
import sys
import time as _real_time
import traceback

import numpy as np

from . import boot  # noqa: F401

COMPONENTS = ["obj", "obj_grad", "cons", "cons_jac", "lag_hess"]

# trace of the solve in progress (set by MonitoredSolver.solve): lets fault injectors
# note during which trial step they fired
ACTIVE = {"trace": None}


def current_trial():
    tr = ACTIVE["trace"]
    return None if tr is None else len(tr.trials) - 1


def _site_chain(limit=14):
    """pygradflow frames (module:function) from the callback upwards, innermost first."""
    f = sys._getframe(2)
    out = []
    repo = boot.REPO + os.sep + "pygradflow"
    while f is not None and len(out) < limit:
        fn = f.f_code.co_filename
        if fn.startswith(repo):
            mod = fn[len(repo) + 1:-3].replace(os.sep, ".")
            out.append(mod + ":" + f.f_code.co_qualname)
        f = f.f_back
    return out


class Fault:
    """Transient fault: the k-th (0-based) evaluation of `component` is non-finite.
    Region fault: every evaluation with pred(x) true is non-finite."""

    def __init__(self, component=None, index=None, pred=None, components=None):
        self.component = component
        self.index = index
        self.pred = pred
        self.components = components or COMPONENTS
        self.fired = []  # (component, call index, x copy)

    def hits(self, comp, idx, x):
        if self.pred is not None:
            return comp in self.components and bool(self.pred(x))
        return comp == self.component and idx == self.index

    VALUES = (float("nan"), float("inf"), float("-inf"))

    def value_for(self, comp, idx):
        """which non-finite value the faulted evaluation returns: NaN, +inf and -inf in turn"""
        if getattr(self, "value", None) is not None:
            return self.value
        return self.VALUES[(idx + COMPONENTS.index(comp)) % 3]


def _problem_base():
    from pygradflow.problem import Problem

    return Problem


class ProxyProblem(_problem_base()):
    """A genuine Problem subclass (as a user would write) that forwards to an inner problem and shares
    its bound arrays."""

    def __init__(self, inner):
        self.inner = inner
        kw = {}
        if inner.num_cons > 0:
            kw = dict(cons_lb=inner.cons_lb, cons_ub=inner.cons_ub)
        super().__init__(inner.var_lb, inner.var_ub, **kw)

    def obj(self, x):
        return self.inner.obj(x)

    def obj_grad(self, x):
        return self.inner.obj_grad(x)

    def cons(self, x):
        return self.inner.cons(x)

    def cons_jac(self, x):
        return self.inner.cons_jac(x)

    def lag_hess(self, x, y):
        return self.inner.lag_hess(x, y)


class RecordingProblem(ProxyProblem):
    """Problem proxy logging every callback call; optional fault injection."""

    def __init__(self, inner, fault=None, record_sites=True, keep_args=True):
        super().__init__(inner)
        self.fault = fault
        self.record_sites = record_sites
        self.keep_args = keep_args
        self.calls = []          # dicts: comp, idx, x, inbox, site, faulted
        self.counts = {c: 0 for c in COMPONENTS}
        self.enabled = True

    def _note(self, comp, x):
        idx = self.counts[comp]
        self.counts[comp] += 1
        xa = np.array(x, dtype=float, copy=True)
        inbox = bool(np.all(xa >= self.inner.var_lb) and np.all(xa <= self.inner.var_ub))
        faulted = bool(self.fault is not None and self.fault.hits(comp, idx, xa))
        rec = {"comp": comp, "idx": idx, "inbox": inbox, "faulted": faulted}
        if self.keep_args:
            rec["x"] = xa
        if self.record_sites:
            rec["site"] = _site_chain()
        if self.enabled:
            self.calls.append(rec)
        if faulted:
            self.fault.fired.append((comp, idx, xa, current_trial()))
        return faulted

    def _bad_value(self, comp):
        # (the counter was advanced by _note: the current call has index counts - 1)
        return self.fault.value_for(comp, self.counts[comp] - 1)

    def obj(self, x):
        bad = self._note("obj", x)
        v = self.inner.obj(x)
        return self._bad_value("obj") if bad else v

    def obj_grad(self, x):
        bad = self._note("obj_grad", x)
        v = self.inner.obj_grad(x)
        if bad:
            v = np.array(v, dtype=float, copy=True)
            v[(self.counts["obj_grad"] - 1) % v.size] = self._bad_value("obj_grad")
        return v

    def cons(self, x):
        bad = self._note("cons", x)
        v = self.inner.cons(x)
        if bad:
            v = np.array(v, dtype=float, copy=True)
            v[(self.counts["cons"] - 1) % v.size] = self._bad_value("cons")
        return v

    def _poison(self, mat, comp):
        val = self._bad_value(comp)
        mat = mat.copy().tocoo()
        if mat.nnz == 0:
            import scipy.sparse as sps

            mat = sps.coo_matrix(([val], ([0], [0])), shape=mat.shape)
        else:
            mat.data = np.array(mat.data, dtype=float, copy=True)
            mat.data[(self.counts[comp] - 1) % mat.data.size] = val
        return mat

    def cons_jac(self, x):
        bad = self._note("cons_jac", x)
        v = self.inner.cons_jac(x)
        return self._poison(v, "cons_jac") if bad else v

    def lag_hess(self, x, y):
        bad = self._note("lag_hess", x)
        v = self.inner.lag_hess(x, y)
        return self._poison(v, "lag_hess") if bad else v


class FaultLinearSolverFactory:
    """Replaces pygradflow.linear_solver.linear_solver.  fail=('factor'|'solve'|'nan'|'inf', k): the k-th factorisation /
    solve raises LinearSolverError, or the k-th solve silently returns a vector containing NaN."""

    def __init__(self, real, fail=None, record=False):
        self.real = real
        self.fail = fail
        self.record = record
        self.n_factor = 0
        self.n_solve = 0
        self.fired = []
        self.log = []

    def __call__(self, mat, solver_type, symmetric=False):
        from pygradflow.linear_solver import LinearSolverError

        k = self.n_factor
        self.n_factor += 1
        if self.fail is not None and self.fail[0] == "factor" and self.fail[1] == k:
            self.fired.append(("factor", k, current_trial()))
            raise LinearSolverError("injected factorisation failure #%d" % k)
        inner = self.real(mat, solver_type, symmetric=symmetric)
        return _SolverProxy(self, inner, mat)


class _SolverProxy:
    def __init__(self, fac, inner, mat):
        self._fac = fac
        self._inner = inner
        self._mat = mat
        self.symmetric = inner.symmetric

    def solve(self, rhs, trans=False, initial_sol=None):
        from pygradflow.linear_solver import LinearSolverError

        fac = self._fac
        k = fac.n_solve
        fac.n_solve += 1
        if fac.fail is not None and fac.fail[0] == "solve" and fac.fail[1] == k:
            fac.fired.append(("solve", k, current_trial()))
            raise LinearSolverError("injected solve failure #%d" % k)
        if fac.fail is not None and fac.fail[0] == "nan" and fac.fail[1] == k:
            # a solver that returns non-finite values without raising (as iterative solvers do after overflow)
            fac.fired.append(("nan", k, current_trial()))
            return np.full(np.shape(rhs), np.nan)
        sol = self._inner.solve(rhs, trans=trans, initial_sol=initial_sol)
        if fac.fail is not None and fac.fail[0] == "inf" and fac.fail[1] == k:
            # ... or a solution with a single infinite component (overflow on a nearly singular system)
            sol = np.array(sol, dtype=float, copy=True)
            if sol.size:
                j = (7 * k + 3) % sol.size
                sol[j] = np.inf if k % 2 == 0 else -np.inf
                fac.fired.append(("inf", k, current_trial(), j))
        if fac.record:
            fac.log.append((self._mat, np.copy(rhs), np.copy(sol), trans))
        return sol

    def num_neg_eigvals(self):
        return self._inner.num_neg_eigvals()

    def rcond(self):
        return self._inner.rcond()


class VirtualClock:
    """Stands in for the `time` module inside pygradflow.timer (attribute `time`).

    The deadline timer (`Timer`, has `time_limit`) and the display timer (`SimpleTimer`
    inside `Display`) are told apart by the object whose method performs the read.
    Deadline reads return T0 until the `expire_at`-th read made through
    `Timer.remaining()` (0-based), and T0 + time_limit + 1 from then on.  Display reads
    are scripted by `display_bits`: the k-th `should_display()` sees an elapsed time
    above the interval iff bit k is set (bits are cycled).  Every read is logged."""

    def __init__(self, expire_at=None, time_limit=None, display_bits=None, display_interval=0.1, ramp=None):
        # the virtual clock continues the real one (frozen at its creation), so that anything the code
        # under test captured from the real clock earlier (e.g. at import) stays comparable
        self.T0 = _real_time.time()
        if ramp is not None:
            # whole seconds, so that T0 + k*tick and the elapsed times computed from it are exact for dyadic ticks
            self.T0 = float(int(self.T0))
        self.D0 = self.T0 + 4000.0
        # ramp=tick: deadline reads return T0 + k*tick for the k-th read instead of jumping; the
        # deadline then passes at the first read with k*tick >= time_limit
        self.ramp = ramp
        self.expire_at = expire_at
        self.time_limit = time_limit
        self.display_bits = display_bits
        self.display_interval = display_interval
        self.reads = []
        self.limit_reads = 0
        self.display_reads = 0
        self.expired_seen = False
        self.displayed = 0

    def __call__(self):
        # also usable where the code under test binds the function itself (`from time import time`)
        return self._read(sys._getframe(1))

    def time(self):
        return self._read(sys._getframe(1))

    def _read(self, f):
        obj = f.f_locals.get("self")
        meth = f.f_code.co_name
        caller = f.f_back.f_code.co_name if f.f_back is not None else ""
        late = self.T0 + (self.time_limit if self.time_limit is not None else 0.0) + 1.0
        if hasattr(type(obj), "reached_time_limit"):
            if meth == "elapsed" and caller == "remaining":
                k = self.limit_reads
                self.limit_reads += 1
                who = ""
                try:
                    who = f.f_back.f_back.f_back.f_code.co_name
                except AttributeError:
                    pass
                if self.ramp is not None:
                    val = self.T0 + k * self.ramp
                    if self.time_limit is not None and val - self.T0 >= self.time_limit:
                        self.expired_seen = True
                    self.reads.append(("limit", k, who, current_trial()))
                    self.last_ramp = val
                    return val
                if self.expire_at is not None and k >= self.expire_at:
                    self.expired_seen = True
                self.reads.append(("limit", k, who, current_trial()))
                return late if self.expired_seen else self.T0
            self.reads.append(("limit_" + meth, caller))
            if self.ramp is not None:
                return self.T0 if meth == "__init__" else getattr(self, "last_ramp", self.T0)
            return late if (self.expired_seen and meth != "__init__") else self.T0
        if meth == "elapsed" and caller == "should_display":
            k = self.display_reads
            self.display_reads += 1
            bit = True
            if self.display_bits is not None:
                bit = bool(self.display_bits[k % len(self.display_bits)])
            self.displayed += int(bit)
            self.reads.append(("display", k, bit))
            return self.D0 + (self.display_interval + 1.0 if bit else 0.0)
        self.reads.append(("display_" + meth, caller))
        return self.D0


class Patch:
    """Context manager substituting module attributes."""

    def __init__(self):
        self.saved = []

    def set_everywhere(self, orig, value, prefix="pygradflow"):
        """Replaces every module-level binding of `orig` in already imported pygradflow modules (covers
        `from x import f` copies made at import time)."""
        for name, mod in list(sys.modules.items()):
            if mod is None or not name.startswith(prefix):
                continue
            for attr, val in list(vars(mod).items()):
                if val is orig:
                    self.set(mod, attr, value)

    def set(self, mod, name, value):
        self.saved.append((mod, name, getattr(mod, name)))
        setattr(mod, name, value)

    def __enter__(self):
        return self

    def __exit__(self, *a):
        for mod, name, val in reversed(self.saved):
            setattr(mod, name, val)
        return False


class _PenaltyProxy:
    """Wraps whatever penalty strategy the solver installs (wherever it does so) and logs
    its decisions into the trace of the solve in progress."""

    def __init__(self, inner, owner):
        self._inner = inner
        self._owner = owner

    def initial(self, iterate):
        r = self._inner.initial(iterate)
        self._owner.trace.penalty_initial = r
        return r

    def update(self, prev_iterate, next_iterate):
        res = self._inner.update(prev_iterate, next_iterate)
        tr = self._owner.trace
        tr.penalty.append({"trial": len(tr.trials) - 1, "accept": bool(res.accept),
                           "next_rho": res.next_rho, "ynorm": _ninf(next_iterate.y)})
        return res

    def __getattr__(self, name):
        return getattr(self._inner, name)


def _ninf(v):
    v = np.asarray(v)
    return float(np.max(np.abs(v))) if v.size else 0.0


class Trace:
    def __init__(self):
        self.newton_calls = []   # (trial index, dt, rho) of every newton_method construction
        self.trials = []
        self.callbacks = []
        self.penalty = []
        self.penalty_initial = None
        self.objs = []  # keep iterate objects alive so ids stay unique


def make_monitored_solver(problem, params, extra_callbacks=0):
    from pygradflow.callbacks import CallbackType
    from pygradflow.solver import Solver

    class MonitoredSolver(Solver):
        def __init__(self, problem, params):
            self.trace = Trace()
            super().__init__(problem, params)
            self.callbacks.register(CallbackType.ComputedStep, self._on_step)
            self.extra_calls = 0
            for _ in range(extra_callbacks):
                self.callbacks.register(CallbackType.ComputedStep, self._extra)

        # the penalty strategy is observed through a proxy installed by attribute assignment, so that
        # it does not matter where the solver creates it
        @property
        def penalty_strategy(self):
            return self.__dict__.get("_penalty_proxy")

        @penalty_strategy.setter
        def penalty_strategy(self, value):
            self.__dict__["_penalty_proxy"] = value if isinstance(value, _PenaltyProxy) else _PenaltyProxy(value, self)

        def _extra(self, iterate, next_iterate, accept):
            # a user callback that looks at things
            self.extra_calls += 1
            _ = float(np.sum(next_iterate.x)) + float(np.sum(iterate.y))

        def _on_step(self, iterate, next_iterate, accept):
            self.trace.objs += [iterate, next_iterate]
            self.trace.callbacks.append({"iter": iterate, "next": next_iterate, "accept": bool(accept),
                                         "rho": self.rho, "trial": len(self.trace.trials) - 1})

        def _compute_step(self, controller, iterate, rho, dt, display, timer):
            tr = self.trace
            rec = {"i": len(tr.trials), "iter": iterate, "x": np.copy(iterate.x), "y": np.copy(iterate.y),
                   "rho": rho, "dt": dt, "display": bool(display)}
            tr.objs.append(iterate)
            tr.trials.append(rec)
            try:
                res = super()._compute_step(controller, iterate, rho, dt, display, timer)
            except BaseException as ex:
                rec["exc"] = type(ex).__name__
                raise
            script = getattr(self, "lamb_script", None)
            if script is not None:
                # stress injection: a step-size policy that answers accepted steps with scripted (extreme) inverse
                # step sizes; everything else is the real controller's result
                new = script(rec["i"], res)
                if new is not None:
                    res.lamb = float(new)
                    rec["lamb_scripted"] = True
            tr.objs.append(res.iterate)
            rec.update(lamb=res.lamb, accepted=bool(res.accepted), next=res.iterate, same=res.iterate is iterate,
                       xn=np.copy(res.iterate.x), yn=np.copy(res.iterate.y),
                       active_set=None if res.active_set is None else np.copy(res.active_set), rcond=res.rcond)
            return res

        def perform_iteration(self, x0=None, y0=None):
            # recorded into a trace of its own (must not touch the trace of an earlier solve)
            keep = self.trace
            keep_active = ACTIVE.get("trace")
            self.trace = Trace()
            ACTIVE["trace"] = self.trace
            try:
                return super().perform_iteration(x0, y0)
            finally:
                self.trace = keep
                ACTIVE["trace"] = keep_active

        def solve(self, x0=None, y0=None):
            self.trace = Trace()
            ACTIVE["trace"] = self.trace
            try:
                return super().solve(x0, y0)
            finally:
                ACTIVE["trace"] = None

    return MonitoredSolver(problem, params)


DELIBERATE = [
    ("initial", "Failed to evaluate initial iterate"),
    ("lamb_max", "Inverse step size"),
    ("line_search", "Line search failed to converge"),
]


def classify_exception(ex):
    """-> (kind, site) ; kind in deliberate kinds, 'DerivError' or 'crash'."""
    from pygradflow.deriv_check import DerivError

    tb = traceback.extract_tb(ex.__traceback__)
    site = None
    repo = boot.REPO + os.sep + "pygradflow"
    for fr in tb:
        if fr.filename.startswith(repo):
            site = fr.filename[len(repo) + 1:-3].replace(os.sep, ".") + ":" + fr.name
    if isinstance(ex, DerivError):
        return "DerivError", site
    if type(ex) is Exception:
        msg = str(ex)
        for kind, prefix in DELIBERATE:
            if msg.startswith(prefix):
                return kind, site
    return "crash", site


class Outcome:
    pass


def run_solve(problem, params, x0=None, y0=None, clock=None, lin_fail=None, lin_record=False,
              extra_callbacks=0, solver_holder=None, user_callback=None, lamb_script=None):
    """One monitored solve.  Returns Outcome with .result or .exc (+ .kind, .site),
    .trace, .solver, .factory, .construct_exc."""
    import pygradflow.linear_solver as LS
    import pygradflow.timer as TM

    out = Outcome()
    out.result = out.exc = out.kind = out.site = None
    out.construct_exc = None
    out.trace = Trace()
    out.factory = None
    out.solver = None
    with Patch() as p:
        if clock is not None:
            p.set(TM, "time", clock)
        if lin_fail is not None or lin_record:
            out.factory = FaultLinearSolverFactory(LS.linear_solver, lin_fail, lin_record)
            p.set_everywhere(LS.linear_solver, out.factory)
        # the step size the Newton method is actually set up with (one level below Solver._compute_step)
        import pygradflow.newton as NW

        real_nm = NW.newton_method

        def recording_newton_method(problem, params, iterate, dt, rho, tau=None):
            tr = ACTIVE["trace"]
            if tr is not None:
                tr.newton_calls.append((len(tr.trials) - 1, dt, rho))
            return real_nm(problem, params, iterate, dt, rho, tau)

        p.set_everywhere(real_nm, recording_newton_method)
        try:
            solver = make_monitored_solver(problem, params, extra_callbacks)
        except Exception as ex:
            out.construct_exc = ex
            return out
        out.solver = solver
        solver.lamb_script = lamb_script
        if user_callback is not None:
            from pygradflow.callbacks import CallbackType

            solver.callbacks.register(CallbackType.ComputedStep, user_callback)
        if solver_holder is not None:
            solver_holder.append(solver)
        try:
            out.result = solver.solve(x0, y0)
        except Exception as ex:
            out.exc = ex
            out.kind, out.site = classify_exception(ex)
            out.tb = "".join(traceback.format_exception(type(ex), ex, ex.__traceback__))[-1500:]
        out.trace = solver.trace
    return out
