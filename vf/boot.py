"""Process bootstrap: import pygradflow from the *working tree* of the repository.

Every check process imports this module first.  It puts the repository checkout
(VF_REPO, default /repo) at the front of sys.path, disables bytecode caching so that
nothing stale survives an edit of the sources, switches the (unused, see DESIGN.md §1)
hook guard on, and makes the offline-installed contract library importable.
"""
import os
import subprocess
import sys

VERIF = os.path.dirname(os.path.dirname(os.path.abspath(__file__)))
REPO = os.environ.get("VF_REPO", "/repo")
DEPS = os.path.join(VERIF, ".deps")
WHEELS = "/opt/veriftools/wheels"

sys.dont_write_bytecode = True
os.environ["PYTHONDONTWRITEBYTECODE"] = "1"
os.environ.setdefault("PYGRADFLOW_VERIF", "1")
for _v in ("OMP_NUM_THREADS", "OPENBLAS_NUM_THREADS", "MKL_NUM_THREADS"):
    os.environ.setdefault(_v, "1")

if REPO not in sys.path:
    sys.path.insert(0, REPO)
if VERIF not in sys.path:
    sys.path.insert(1, VERIF)


def ensure_deps(quiet=True):
    """Install icontract (pure Python) from the offline wheelhouse into /verif/.deps."""
    marker = os.path.join(DEPS, "icontract")
    if not os.path.isdir(marker):
        os.makedirs(DEPS, exist_ok=True)
        import fcntl

        with open(os.path.join(DEPS, ".lock"), "w") as lock:
            fcntl.flock(lock, fcntl.LOCK_EX)
            if not os.path.isdir(marker):
                cmd = [
                    sys.executable, "-m", "pip", "install", "--no-index", "--quiet",
                    "--find-links", WHEELS, "--target", DEPS, "icontract",
                ]
                subprocess.run(cmd, check=True, stdout=subprocess.DEVNULL if quiet else None)
    if DEPS not in sys.path:
        sys.path.append(DEPS)


def silence_logging():
    import logging

    lg = logging.getLogger("gradflow")
    lg.handlers[:] = []
    lg.addHandler(logging.NullHandler())
    lg.propagate = False
    lg.setLevel(logging.CRITICAL)
    return lg
