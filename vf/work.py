"""Shared workload plumbing and trace checkers for the solver-level properties."""
import os
import warnings

import numpy as np

from . import boot  # noqa: F401
from . import cfg as C
from . import mon
from . import ref as R
from .gen import SpecProblem, make_spec, rng_for

WRAPPER_MODULES = ("scale", "cons_problem", "eval", "iterate", "transform", "implicit_func")
EXEMPT_SITES = ("deriv_check:deriv_check", "scale:create_scaling")


def mk_case(fam, gseed, cfg, **kw):
    c = {"fam": fam, "gseed": [int(g) for g in gseed], "cfg": cfg}
    c.update(kw)
    return c


class Prep:
    pass


def prepare(case, fault=None, record_sites=True, keep_args=True, policy="fresh"):
    """Builds spec, user problem (wrapped in a RecordingProblem), Params, x0, y0."""
    warnings.simplefilter("ignore")
    p = Prep()
    spec = make_spec(case["fam"], case["gseed"], **case.get("gopts", {}))
    rng = rng_for("prep", case["fam"], *case["gseed"])
    cfgd = dict(case["cfg"])
    p.fmt = case.get("fmt") or str(rng.choice(["coo", "csr", "csc"]))
    # non-canonical sparse storage (entries split into two stored parts, explicit zeros) in a share of all cases
    p.dup = case["dup"] if "dup" in case else int(rng.choice([0, 0, 0, 1, 2]))
    if p.fmt not in ("coo", "csr", "csc"):
        p.dup = 0
    ymode = case.get("y0", "none")
    if ymode == "rand":
        spec.y0 = rng.normal(size=spec.m) * float(case.get("y0_scale", 1.0))
    if case.get("x0") == "none":
        x0 = None
    elif case.get("x0") == "restart":
        from .gen import start_point

        x0 = start_point(rng_for("x0", *case["gseed"], case.get("x0_seed", 0)), spec.var_lb, spec.var_ub)
        spec.x0 = x0
    else:
        x0 = None if spec.x0 is None else np.copy(spec.x0)
    if case.get("x0_near") and x0 is not None:
        # components strictly inside the box but within a hair (one ulp .. 1e-9 relative) of a finite bound
        r3 = rng_for("x0near", *case["gseed"])
        x0 = np.array(x0, dtype=float, copy=True)
        for j in range(spec.n):
            l, u = spec.var_lb[j], spec.var_ub[j]
            if l == u or r3.random() < 0.3:
                continue
            up = np.isfinite(u) and (r3.random() < 0.6 or not np.isfinite(l))
            if not up and not np.isfinite(l):
                continue
            b, other = (u, l) if up else (l, u)
            if r3.random() < 0.4:
                v = float(np.nextafter(b, other))
            else:
                v = b + (-1.0 if up else 1.0) * float(10.0 ** r3.uniform(-14, -9)) * max(1.0, abs(b))
            if l < v < u:
                x0[j] = v
        spec.x0 = x0
    if case.get("x0_out") and x0 is not None:
        # a start point that violates some variable bounds (allowed for properties that do not assume an in-bounds start)
        r2 = rng_for("x0out", *case["gseed"])
        x0 = np.array(x0, dtype=float, copy=True)
        for j in range(spec.n):
            if spec.var_lb[j] == spec.var_ub[j] or r2.random() < 0.4:
                continue
            if np.isfinite(spec.var_ub[j]) and (r2.random() < 0.5 or not np.isfinite(spec.var_lb[j])):
                x0[j] = spec.var_ub[j] + r2.uniform(0.1, 1.0)
            elif np.isfinite(spec.var_lb[j]):
                x0[j] = spec.var_lb[j] - r2.uniform(0.1, 1.0)
        spec.x0 = x0
    zsel = case.get("x0_zero")
    if zsel is not None and x0 is not None and spec.meta.get("zero_lb"):
        # which of the variables with lower bound 0 start exactly at 0 (decides the stored sparsity pattern)
        x0 = np.array(x0, dtype=float, copy=True)
        zl = spec.meta["zero_lb"]
        for t, j in enumerate(zl):
            hi = spec.var_ub[j] if np.isfinite(spec.var_ub[j]) else 2.0
            x0[j] = 0.0 if (t % 2 == zsel % 2) else 0.5 * hi
        spec.x0 = x0
    weights = None
    if cfgd.get("scaling") == "custom":
        weights = cfgd.get("weights") or C.scaling_weights(rng, spec.n, spec.m, span=int(case.get("wspan", 6)),
                                                           degenerate=bool(case.get("wdegen")))
    p.spec = spec
    p.weights = weights
    p.inner = SpecProblem(spec, fmt=p.fmt, dup=p.dup, policy=case.get("policy", policy))
    p.rec = mon.RecordingProblem(p.inner, fault=fault, record_sites=record_sites, keep_args=keep_args)
    p.params = C.make_params(cfgd, spec, weights=weights)
    p.x0 = x0
    p.y0 = None if spec.y0 is None else np.copy(spec.y0)
    p.cfg = C.normalise(cfgd)
    p.P = R.user_dense(spec)
    return p


def weights_of(solver, spec):
    sc = solver.transform.scaling
    if sc is None:
        return R.Weights.zero(spec.n, spec.m)
    return R.Weights(np.asarray(sc.var_weights), np.asarray(sc.cons_weights), int(sc.obj_weight))


def x0_array(p):
    spec = p.spec
    if p.x0 is None:
        return np.clip(np.zeros(spec.n), spec.var_lb, spec.var_ub)
    return np.array(np.broadcast_to(np.asarray(p.x0, dtype=float), (spec.n,)))


def y0_array(p):
    return np.zeros(p.spec.m) if p.y0 is None else np.asarray(p.y0, dtype=float)


def cfg_key(cfgd, *names):
    c = C.normalise(cfgd)
    return {n: c[n] for n in (names or ("newton", "step_solver", "linear", "control", "penalty", "active", "scaling"))}


def outcome_class(out):
    if out.construct_exc is not None:
        return "construct:" + type(out.construct_exc).__name__
    if out.result is not None:
        return "status:" + out.result.status.name
    return "raise:" + out.kind


# ------------------------------------------------------------------ trace checkers


def same_trial(a, b, inputs_only=False):
    if a["rho"] != b["rho"] or a["dt"] != b["dt"]:
        return False
    if not (np.array_equal(a["x"], b["x"]) and np.array_equal(a["y"], b["y"])):
        return False
    if inputs_only:
        return True
    if ("accepted" in a) != ("accepted" in b):
        return False
    if "accepted" not in a:
        return True
    if a["accepted"] != b["accepted"] or a["lamb"] != b["lamb"] or a["same"] != b["same"]:
        return False
    if not (np.array_equal(a["xn"], b["xn"]) and np.array_equal(a["yn"], b["yn"])):
        return False
    if (a["active_set"] is None) != (b["active_set"] is None):
        return False
    if a["active_set"] is not None and not np.array_equal(a["active_set"], b["active_set"]):
        return False
    return True




def effective_accepts(trace):
    pen = {r["trial"]: r for r in trace.penalty}
    eff = []
    for i, t in enumerate(trace.trials):
        if "accepted" not in t:
            eff.append(False)
            continue
        a = t["accepted"]
        if a and i in pen:
            a = pen[i]["accept"]
        eff.append(bool(a))
    return eff, pen


def interesting_site(chain):
    for s in chain:
        if s.split(":")[0] not in WRAPPER_MODULES:
            return s
    return chain[-1] if chain else "?"


def check_in_bounds(p, out, trans_bounds=None):
    """C05: every recorded callback call inside the user's box (exemptions by call site);
    callback iterates inside the internal box; result.x inside."""
    viol = []
    stats = {"evals_checked": 0, "evals_exempt": 0}
    seen = set()
    for c in p.rec.calls:
        chain = c.get("site", [])
        if any(e in chain for e in EXEMPT_SITES):
            stats["evals_exempt"] += 1
            continue
        stats["evals_checked"] += 1
        stats["evals_" + c["comp"]] = stats.get("evals_" + c["comp"], 0) + 1
        if not c["inbox"]:
            site = interesting_site(chain)
            sig = (c["comp"], site)
            if sig in seen:
                continue
            seen.add(sig)
            x = c.get("x")
            exc = float(np.max(np.maximum(p.spec.var_lb - x, x - p.spec.var_ub))) if x is not None else None
            viol.append({"what": "%s evaluated outside the variable bounds (excursion %.3e) from %s"
                                 % (c["comp"], exc, site),
                         "key": {"kind": "callback-out-of-bounds", "site": site, "newton": p.cfg["newton"]},
                         "detail": {"component": c["comp"], "x": x, "chain": chain}})
    if trans_bounds is not None:
        lb, ub = trans_bounds
        n0 = p.spec.n
        for cb in out.trace.callbacks:
            for nm in ("iter", "next"):
                x = cb[nm].x
                stats["callback_iterates_checked"] = stats.get("callback_iterates_checked", 0) + 1
                if x.shape != lb.shape:
                    # internal layout differs from the reference transformation (not this property's business):
                    # judge the part that corresponds to the user's variables
                    x, lbc, ubc = x[:n0], lb[:n0], ub[:n0]
                    stats["callback_iterates_layout_differs"] = stats.get("callback_iterates_layout_differs", 0) + 1
                else:
                    lbc, ubc = lb, ub
                if np.any(x < lbc) or np.any(x > ubc):
                    viol.append({"what": "iterate handed to a callback lies outside the (internal) box",
                                 "key": {"kind": "callback-iterate-out-of-bounds", "which": nm},
                                 "detail": {"x": x}})
                    break
    if out.result is not None:
        x = out.result.x
        if np.any(x < p.spec.var_lb) or np.any(x > p.spec.var_ub):
            viol.append({"what": "returned x violates the variable bounds", "key": {"kind": "result-out-of-bounds"},
                         "detail": {"x": x}})
    return viol, stats


def check_penalty(p, out):
    """C16 trace checker."""
    viol = []
    tr = out.trace
    stats = {"trials": len(tr.trials), "penalty_increases": 0}
    pol = p.cfg["penalty"]
    rho0 = p.params.rho
    prev = None
    ymax = None
    eff, pen = effective_accepts(tr)
    for i, t in enumerate(tr.trials):
        rho = t["rho"]
        if not (rho > 0.0):
            viol.append({"what": "trial %d uses penalty %r (not positive)" % (i, rho),
                         "key": {"kind": "not-positive", "penalty": pol}})
            break
        if prev is not None:
            if rho < prev:
                viol.append({"what": "penalty decreased from %r to %r at trial %d" % (prev, rho, i),
                             "key": {"kind": "decrease", "penalty": pol}})
                break
            if rho > prev:
                stats["penalty_increases"] += 1
                if pol == "DualNorm" and rho > 10.0 * prev * (1 + 1e-15):
                    viol.append({"what": "DualNorm raised the penalty by more than a factor of ten (%r -> %r)" % (prev, rho),
                                 "key": {"kind": "dualnorm-factor", "penalty": pol}})
                    break
        if pol == "Constant" and rho != rho0:
            viol.append({"what": "Constant policy: trial %d uses penalty %r instead of %r" % (i, rho, rho0),
                         "key": {"kind": "constant-changed", "penalty": pol}})
            break
        if pol == "DualNorm":
            bound = max(rho0, ymax if ymax is not None else 0.0)
            if rho > bound * (1 + 1e-15):
                viol.append({"what": "DualNorm: penalty %r exceeds max(initial %r, largest accepted |y| %r)"
                                     % (rho, rho0, ymax),
                             "key": {"kind": "dualnorm-bound", "penalty": pol}})
                break
        prev = rho
        if eff[i]:
            yn = float(np.max(np.abs(t["yn"]))) if t["yn"].size else 0.0
            ymax = yn if ymax is None else max(ymax, yn)
    for cb in tr.callbacks:
        k = cb["trial"]
        if 0 <= k < len(tr.trials) and cb["rho"] != tr.trials[k]["rho"]:
            viol.append({"what": "solver.rho seen in the callback of trial %d (%r) differs from the penalty used by "
                                 "that trial (%r)" % (k, cb["rho"], tr.trials[k]["rho"]),
                         "key": {"kind": "callback-rho", "penalty": pol}})
            break
    for r in tr.penalty:
        k = r["trial"]
        if r["next_rho"] < tr.trials[k]["rho"]:
            viol.append({"what": "penalty strategy proposed a smaller penalty (%r < %r)" % (r["next_rho"], tr.trials[k]["rho"]),
                         "key": {"kind": "update-decrease", "penalty": pol}})
            break
    stats["penalty_updates_seen"] = len(tr.penalty)
    stats["vetoes"] = sum(1 for r in tr.penalty if not r["accept"])
    return viol, stats


def check_stepsize(p, out, D=None):
    """C15 trace checker.  D: dense internal reference problem (for the Exact residual)."""
    viol = []
    tr = out.trace
    ctl = p.cfg["control"]
    stats = {"rejections": 0, "failures": 0, "exact_accepts_checked": 0, "pairs": 0}
    key = {"control": ctl, "newton": p.cfg["newton"]}
    lamb_max = p.params.lamb_max
    T = tr.trials
    eff, _ = effective_accepts(tr)
    worst = 0.0
    for i, t in enumerate(T):
        lamb_in = 1.0 / t["dt"]
        # the statement speaks about values *returned by a previous trial*; the configured
        # initial value is not judged (a run with lamb_init >= lamb_max is a misconfiguration)
        if i >= 1 and lamb_in >= lamb_max:
            viol.append({"what": "trial %d computed with inverse step size %r >= lamb_max %r" % (i, lamb_in, lamb_max),
                         "key": dict(key, kind="beyond-lamb-max")})
            break
        if "accepted" not in t:
            continue
        if not t["accepted"]:
            failed = t["same"] and t["active_set"] is None
            stats["failures" if failed else "rejections"] += 1
            if not (t["lamb"] > lamb_in):
                viol.append({"what": "rejected/failed trial %d returned inverse step size %r, not larger than the %r it used"
                                     % (i, t["lamb"], lamb_in), "key": dict(key, kind="no-shrink")})
                break
        else:
            xn = t["xn"]
            lb, ub = out.solver.problem.var_lb, out.solver.problem.var_ub
            if np.any(xn < lb) or np.any(xn > ub):
                viol.append({"what": "accepted step %d leaves the box" % i, "key": dict(key, kind="accepted-out-of-box")})
                break
            if ctl == "Exact" and D is not None:
                F, _ = R.implicit_F(D, t["x"], t["y"], xn, t["yn"], t["rho"], t["dt"])
                # exact projection (the residual of the projected flow), not the 1e-8-slack one
                pp = R.proj_point(D, t["x"], xn, t["yn"], t["rho"], t["dt"])
                Fx = xn - np.minimum(np.maximum(pp, D.lb), D.ub)
                Fe = np.concatenate([Fx, F[D.n:]])
                fn = float(np.linalg.norm(Fe))
                lim = p.params.newton_tol + np.sqrt(D.n) * 1e-8
                mag = float(np.linalg.norm(np.abs(t["x"]) + t["dt"] * (D.gabs(xn) + D.Jabs(xn).T.dot(
                    t["rho"] * D.cabs(xn) + np.abs(t["yn"]))))) if hasattr(D, "gabs") else 0.0
                lim2 = lim + 1e-12 * mag
                stats["exact_accepts_checked"] += 1
                worst = max(worst, fn / lim2)
                if not fn <= lim2:
                    viol.append({"what": "Exact control accepted an iterate with implicit-Euler residual %.3e > %.3e"
                                         % (fn, lim2), "key": dict(key, kind="exact-residual"),
                                 "detail": {"trial": i, "dt": t["dt"], "rho": t["rho"]}})
                    break
        if i + 1 < len(T):
            nxt = T[i + 1]
            stats["pairs"] += 1
            if nxt["dt"] != 1.0 / t["lamb"]:
                viol.append({"what": "trial %d uses step size %r but the previous trial returned inverse step size %r"
                                     % (i + 1, nxt["dt"], t["lamb"]), "key": dict(key, kind="chain")})
                break
            if not eff[i] and nxt["iter"] is not t["iter"]:
                viol.append({"what": "iterate changed after the rejected/failed/vetoed trial %d" % i,
                             "key": dict(key, kind="moved-after-reject")})
                break
            if not eff[i] and not (np.array_equal(nxt["x"], t["x"]) and np.array_equal(nxt["y"], t["y"])):
                viol.append({"what": "iterate value changed after the rejected trial %d" % i,
                             "key": dict(key, kind="moved-after-reject")})
                break
    stats["exact_worst_ratio_e6"] = int(worst * 1e6)
    return viol, stats


def check_story(p, out, Rt):
    """C12 trace checker.  Rt: ref.RefTransform of a separate instance of the user problem."""
    viol = []
    tr = out.trace
    res = out.result
    T, CB = tr.trials, tr.callbacks
    eff, pen = effective_accepts(tr)
    key = {"control": p.cfg["control"], "penalty": p.cfg["penalty"]}
    stats = {"trials": len(T), "effective_accepts": int(sum(eff)), "vetoed": sum(1 for r in tr.penalty if not r["accept"]),
             "controller_rejects": sum(1 for t in T if "accepted" in t and not t["accepted"])}

    def bad(kind, what, detail=None):
        viol.append({"what": what, "key": dict(key, kind=kind), "detail": detail or {}})

    if res is None:
        return viol, stats
    if not (res.iterations == len(CB) == len(T)):
        bad("iteration-count", "iterations=%d, callbacks announced=%d, step computations=%d"
            % (res.iterations, len(CB), len(T)))
    if res.num_accepted_steps != sum(eff):
        bad("accepted-count", "num_accepted_steps=%d but the iterate changed %d times" % (res.num_accepted_steps, sum(eff)))
    for i, (t, cb) in enumerate(zip(T, CB)):
        if cb["iter"] is not t["iter"] or cb["next"] is not t.get("next") or cb["accept"] != t.get("accepted"):
            bad("callback-mismatch", "callback %d does not announce the step that was computed" % i)
            break
    for i in range(len(T) - 1):
        exp = T[i]["next"] if eff[i] else T[i]["iter"]
        if T[i + 1]["iter"] is not exp:
            bad("chain", "step %d does not start from the previously accepted point (step %d was %s)"
                % (i + 1, i, "accepted" if eff[i] else "not accepted"))
            break
        # ... and by value (the recorded copies): the point must not have changed in between
        ex, ey = (T[i]["xn"], T[i]["yn"]) if eff[i] else (T[i]["x"], T[i]["y"])
        if not (np.array_equal(T[i + 1]["x"], ex) and np.array_equal(T[i + 1]["y"], ey)):
            bad("chain-value", "step %d starts from a point whose value differs from the previously accepted point "
                "(the iterate changed between two steps)" % (i + 1))
            break
    if T:
        z0, y0 = Rt.to_internal(x0_array(p), y0_array(p))
        if not (np.array_equal(T[0]["x"], z0) and np.array_equal(T[0]["y"], y0)):
            bad("start", "first step does not start from the transformed x0/y0")
    # final solution = last accepted point
    last_x, last_y = None, None
    if T:
        last_x, last_y = T[0]["x"], T[0]["y"]
        for i, t in enumerate(T):
            if eff[i]:
                last_x, last_y = t["xn"], t["yn"]
    else:
        last_x, last_y = Rt.to_internal(x0_array(p), y0_array(p))
    ex, ey, _ = Rt.to_user(last_x, last_y, np.zeros(Rt.n + Rt.ns))
    if not (np.array_equal(res.x, ex) and np.array_equal(res.y, ey)):
        bad("final-point", "returned x/y is not the last accepted point",
            {"x": res.x, "expected_x": ex, "y": res.y, "expected_y": ey})
    if not (res.dist_factor >= 1.0 - 1e-9):
        bad("dist-factor", "dist_factor=%r < 1" % res.dist_factor)
    if p.params.collect_path:
        path, times = res.path, res.model_times
        stats["paths_checked"] = 1
        if path is None or times is None:
            bad("path-missing", "collect_path set but no path returned")
        else:
            ne = int(sum(eff))
            if path.shape[1] != ne + 1 or times.shape[0] != ne + 1:
                bad("path-length", "path has %d columns for %d accepted steps" % (path.shape[1], ne))
            else:
                cols = [np.concatenate([T[0]["x"], T[0]["y"]])] if T else [np.concatenate(Rt.to_internal(x0_array(p), y0_array(p)))]
                dts = []
                last_newton_dt = {}
                for (ti, ndt, _) in tr.newton_calls:
                    last_newton_dt[ti] = ndt
                for i, t in enumerate(T):
                    if eff[i]:
                        cols.append(np.concatenate([t["xn"], t["yn"]]))
                        # step size used = the one the Newton method that produced the accepted iterate was set
                        # up with (equals the one handed to the step controller unless something in between
                        # changes it)
                        used = last_newton_dt.get(i, t["dt"])
                        if used != t["dt"]:
                            stats["newton_dt_differs"] = stats.get("newton_dt_differs", 0) + 1
                        dts.append(used)
                for j, c in enumerate(cols):
                    if not np.array_equal(path[:, j], c):
                        bad("path-column", "path column %d is not the %d-th accepted point" % (j, j))
                        break
                if times[0] != 0.0:
                    bad("path-times", "model_times[0]=%r" % times[0])
                else:
                    tsum = 0.0
                    for j, dt in enumerate(dts):
                        tsum = tsum + dt
                        if abs(times[j + 1] - tsum) > 4 * np.spacing(abs(tsum)):
                            bad("path-times", "model time of accepted step %d is %r, but the step sizes used sum to %r "
                                "(step size used %r, recorded increment %r)"
                                % (j + 1, times[j + 1], tsum, dt, times[j + 1] - times[j]),
                                {"step": j, "dt_used": dt})
                            break
    return viol, stats


def _repo_frames(ex):
    import traceback

    from . import boot

    root = os.path.realpath(boot.REPO) + os.sep
    return [f for f in traceback.extract_tb(ex.__traceback__) if os.path.realpath(f.filename).startswith(root)]


def raised_in_repo(ex):
    """Was the exception raised by repository code (innermost frame inside the repository)?"""
    import traceback

    from . import boot

    tb = traceback.extract_tb(ex.__traceback__)
    root = os.path.realpath(boot.REPO) + os.sep
    return bool(tb) and os.path.realpath(tb[-1].filename).startswith(root)


def repo_frame(ex):
    fr = _repo_frames(ex)
    if not fr:
        return None
    from . import boot

    f = fr[-1]
    return "%s:%s" % (os.path.relpath(os.path.realpath(f.filename), os.path.realpath(boot.REPO)), f.name)
