"""Problem-spec generators and the user-side Problem built from a spec.

A *spec* is plain dense data.  `SpecProblem` is the `pygradflow.problem.Problem`
subclass a user would write for it (sparse callbacks, configurable sparse format and
return policy).  The reference model in `vf/ref.py` is built from the same spec with
separate code and never imports anything from here except the `Spec` container.

  f(x)   = 1/2 x'Qx + q'x + sum_k a_k softplus(w_k'x)
  c_i(x) = A_i x + e_i + 1/2 x'B_i x
"""
import zlib

import numpy as np
import scipy.sparse as sps
from scipy.special import expit

from . import boot  # noqa: F401  (sys.path)
from pygradflow.problem import Problem

INF = np.inf


def rng_for(*keys):
    ks = []
    for k in keys:
        if isinstance(k, str):
            k = zlib.crc32(k.encode())
        ks.append(int(k) & 0xFFFFFFFF)
    return np.random.default_rng(ks)


class Spec:
    def __init__(self, Q, q, A, e, var_lb, var_ub, cons_lb, cons_ub,
                 sp_a=None, sp_W=None, B=None, x0=None, y0=None, meta=None):
        self.Q = np.asarray(Q, dtype=float)
        self.q = np.asarray(q, dtype=float)
        self.n = self.q.shape[0]
        self.A = np.asarray(A, dtype=float).reshape(-1, self.n)
        self.m = self.A.shape[0]
        self.e = np.asarray(e, dtype=float).reshape(self.m)
        self.var_lb = np.asarray(var_lb, dtype=float)
        self.var_ub = np.asarray(var_ub, dtype=float)
        self.cons_lb = np.asarray(cons_lb, dtype=float).reshape(self.m)
        self.cons_ub = np.asarray(cons_ub, dtype=float).reshape(self.m)
        self.sp_a = np.zeros(0) if sp_a is None else np.asarray(sp_a, dtype=float)
        self.sp_W = (np.zeros((0, self.n)) if sp_W is None
                     else np.asarray(sp_W, dtype=float).reshape(-1, self.n))
        self.B = B  # None or list (len m) of None / (n,n) symmetric arrays
        self.x0 = x0
        self.y0 = y0
        self.meta = meta or {}

    @property
    def nonlinear_cons(self):
        return self.B is not None and any(b is not None for b in self.B)

    @property
    def is_qp(self):
        return self.sp_a.size == 0 and not self.nonlinear_cons

    def var_kinds(self):
        out = []
        for l, u in zip(self.var_lb, self.var_ub):
            if l == u:
                out.append("fixed")
            elif np.isfinite(l) and np.isfinite(u):
                out.append("boxed")
            elif np.isfinite(l):
                out.append("lower")
            elif np.isfinite(u):
                out.append("upper")
            else:
                out.append("free")
        return out

    def row_kinds(self):
        out = []
        for l, u in zip(self.cons_lb, self.cons_ub):
            if l == u:
                out.append("eq0" if l == 0.0 else "eq")
            elif np.isfinite(l) and np.isfinite(u):
                out.append("ranged")
            elif np.isfinite(l):
                out.append("ge")
            elif np.isfinite(u):
                out.append("le")
            else:
                out.append("freerow")
        return out

    def summary(self):
        return {
            "n": self.n, "m": self.m, "family": self.meta.get("family"),
            "vars": sorted(set(self.var_kinds())), "rows": sorted(set(self.row_kinds())),
            "softplus_terms": int(self.sp_a.size), "quadratic_rows": bool(self.nonlinear_cons),
        }


# --------------------------------------------------------------------------- user problem


def _pack(dense, fmt, dup, shape=None):
    """Dense -> sparse matrix in the requested format.

    dup=True produces a non-canonical matrix: every non-zero is split into two COO
    entries that sum to it exactly (v/2 + v/2), and structural zeros are stored
    explicitly at (up to) two positions that hold a zero value.
    """
    dense = np.asarray(dense, dtype=float)
    if shape is None:
        shape = dense.shape
    r, c = np.nonzero(dense)
    v = dense[r, c]
    if dup:
        zr, zc = np.nonzero(dense == 0.0)
        zr, zc = zr[:2], zc[:2]
        rows = np.concatenate([r, r, zr])
        cols = np.concatenate([c, c, zc])
        if dup == 2:
            # parts of opposite sign: 2v + (-v) = v exactly
            vals = np.concatenate([v * 2.0, -v, np.zeros(len(zr))])
        else:
            vals = np.concatenate([v * 0.5, v * 0.5, np.zeros(len(zr))])
        mat = sps.coo_matrix((vals, (rows, cols)), shape=shape)
    else:
        mat = sps.coo_matrix((v, (r, c)), shape=shape)
    if fmt in ("cooa", "csra", "csca"):
        # scipy's sparse *array* classes (element-wise `*`, numpy-like semantics) instead of the sparse matrix classes
        return {"cooa": sps.coo_array, "csra": sps.csr_array, "csca": sps.csc_array}[fmt](mat)
    if fmt == "coo":
        return mat
    if fmt == "csr":
        return mat.tocsr()
    if fmt == "csc":
        return mat.tocsc()
    if fmt == "diaj":
        # hand-assembled DIA storage: the slots of the diagonal arrays that lie outside the matrix (ignored by
        # scipy) hold left-over non-finite values, e.g. 1/0 from difference quotients on a grid
        D = mat.todia()
        data = np.array(D.data, dtype=float, copy=True)
        nr, nc = shape
        for k, off in enumerate(D.offsets):
            j = np.arange(data.shape[1])
            i = j - off
            outside = (i < 0) | (i >= nr) | (j >= nc)
            data[k, outside] = np.where(np.arange(outside.sum()) % 2 == 0, np.inf, np.nan)
        return sps.dia_matrix((data, D.offsets), shape=shape)
    if fmt in ("dia", "bsr", "lil", "dok"):
        # further scipy.sparse formats a user's callback may return
        return mat.asformat(fmt)
    raise ValueError(fmt)


class SpecProblem(Problem):
    """The user's problem.  policy: 'fresh' | 'const' | 'memo' (see DESIGN C11)."""

    def __init__(self, spec, fmt="coo", dup=False, policy="fresh", vec_dtype=None, obj_array=False):
        self.spec = spec
        # the objective value handed over as a 0-d numpy array (np.asarray of a scalar, an out= buffer, ...)
        self.obj_array = obj_array
        # problem data handed over in a narrower dtype where that represents it exactly: integer coefficients as
        # int64/int32/int8, 0/1 incidence matrices as bool, single-precision data as float32
        self.mat_dtype = spec.meta.get("mat_dtype") or ("int64" if spec.meta.get("int_matrices") else None)
        # gradient / constraint values rounded to and handed over in this dtype (None: float64)
        self.vec_dtype = vec_dtype
        self.fmt = fmt
        self.dup = dup
        self.policy = policy
        self._memo = {}
        self._const = {}
        self._struct = {}
        kw = {}
        if spec.m > 0:
            kw = dict(cons_lb=np.copy(spec.cons_lb), cons_ub=np.copy(spec.cons_ub))
        # the arrays the "caller" hands over (kept so that monitors can snapshot them)
        self.given = dict(var_lb=np.copy(spec.var_lb), var_ub=np.copy(spec.var_ub), **kw)
        super().__init__(self.given["var_lb"], self.given["var_ub"], **kw)

    # raw evaluations -----------------------------------------------------------
    def _obj(self, x):
        s = self.spec
        v = 0.5 * float(x @ (s.Q @ x)) + float(s.q @ x)
        if s.sp_a.size:
            v += float(np.dot(s.sp_a, np.logaddexp(0.0, s.sp_W @ x)))
        return v

    def _obj_grad(self, x):
        s = self.spec
        g = s.Q @ x + s.q
        if s.sp_a.size:
            g = g + s.sp_W.T @ (s.sp_a * expit(s.sp_W @ x))
        return g

    def _cons(self, x):
        s = self.spec
        c = s.A @ x + s.e
        if s.B is not None:
            for i, b in enumerate(s.B):
                if b is not None:
                    c[i] += 0.5 * float(x @ (b @ x))
        return c

    def _cons_jac_dense(self, x):
        s = self.spec
        J = np.array(s.A, copy=True)
        if s.B is not None:
            for i, b in enumerate(s.B):
                if b is not None:
                    J[i, :] += b @ x
        return J

    def _lag_hess_dense(self, x, y):
        s = self.spec
        H = np.array(s.Q, copy=True)
        if s.sp_a.size:
            t = expit(s.sp_W @ x)
            H += s.sp_W.T @ ((s.sp_a * t * (1.0 - t))[:, None] * s.sp_W)
        if s.B is not None:
            for i, b in enumerate(s.B):
                if b is not None:
                    H += y[i] * b
        return H

    # policies ------------------------------------------------------------------
    def _deliver(self, name, key, make, constant):
        if self.policy in ("fresh", "shared", "unshared"):
            return make()
        if self.policy == "const" and constant:
            if name not in self._const:
                self._const[name] = make()
            return self._const[name]
        if self.policy in ("memo", "const"):
            k = (name, key)
            if k not in self._memo:
                self._memo[k] = make()
            return self._memo[k]
        raise ValueError(self.policy)

    def _shared(self, name, dense):
        """policy 'shared': the sparsity structure is set up once (full pattern, stored in non-canonical order:
        unsorted within each row/column, with dup every position split into two stored parts) and its index arrays
        are shared by all matrices handed out; only the value array is fresh on every call."""
        dense = np.asarray(dense, dtype=float)
        st = self._struct.get(name)
        if st is None:
            nr, nc = dense.shape
            rng = rng_for("struct", name, nr, nc, self.spec.n, self.spec.m)
            r, c = np.divmod(np.arange(nr * nc), nc) if nr * nc else (np.zeros(0, int), np.zeros(0, int))
            fac = np.ones(r.shape[0])
            if self.dup:
                r, c = np.concatenate([r, r]), np.concatenate([c, c])
                fac = (np.concatenate([fac * 2.0, -fac]) if self.dup == 2 else np.concatenate([fac * 0.5, fac * 0.5]))
            perm = rng.permutation(r.shape[0])
            r, c, fac = r[perm], c[perm], fac[perm]
            if self.fmt in ("csr", "csc"):
                major, minor, nmaj = (r, c, nr) if self.fmt == "csr" else (c, r, nc)
                o = np.argsort(major, kind="stable")   # minor indices stay in shuffled order
                r, c, fac = r[o], c[o], fac[o]
                indptr = np.zeros(nmaj + 1, dtype=np.int32)
                np.cumsum(np.bincount(major, minlength=nmaj), out=indptr[1:])
                idx = (np.array((c if self.fmt == "csr" else r), dtype=np.int32), indptr)
            else:
                idx = (np.array(r, dtype=np.int32), np.array(c, dtype=np.int32))
            st = self._struct[name] = {"r": r, "c": c, "fac": fac, "idx": idx, "shape": (nr, nc),
                                       "pristine": tuple(np.copy(a) for a in idx)}
        data = dense[st["r"], st["c"]] * st["fac"]
        # 'unshared': the same storage layout, but every matrix gets its own copy of the index arrays
        i0, i1 = st["idx"] if self.policy == "shared" else (np.copy(st["idx"][0]), np.copy(st["idx"][1]))
        if self.fmt == "csr":
            return sps.csr_matrix((data, i0, i1), shape=st["shape"])
        if self.fmt == "csc":
            return sps.csc_matrix((data, i0, i1), shape=st["shape"])
        return sps.coo_matrix((data, (i0, i1)), shape=st["shape"])

    def structure_arrays(self):
        """(name, shared index array, pristine copy) of the structures set up so far"""
        for name, st in self._struct.items():
            for k, (a, b) in enumerate(zip(st["idx"], st["pristine"])):
                yield "%s.index[%d]" % (name, k), a, b

    def cached_objects(self):
        for k, v in self._const.items():
            yield (k, None), v
        for k, v in self._memo.items():
            yield k, v

    # Problem interface -----------------------------------------------------------
    def obj(self, x):
        x = np.array(x, dtype=float)
        v = self._obj(x)
        if self.obj_array:
            return self._deliver("obj", x.tobytes(), lambda: np.array(v, dtype=float), False)
        return v if self.vec_dtype is None else self._vec(np.array([v]))[0]

    def obj_grad(self, x):
        x = np.array(x, dtype=float)
        return self._deliver("obj_grad", x.tobytes(), lambda: self._vec(self._obj_grad(x)), False)

    def cons(self, x):
        if self.spec.m == 0:
            # a user without constraints does not implement the constraint callbacks
            raise NotImplementedError()
        x = np.array(x, dtype=float)
        return self._deliver("cons", x.tobytes(), lambda: self._vec(self._cons(x)), False)

    def cons_jac(self, x):
        if self.spec.m == 0:
            raise NotImplementedError()
        x = np.array(x, dtype=float)
        const = not self.spec.nonlinear_cons
        return self._deliver(
            "cons_jac", x.tobytes(),
            lambda: (self._shared("cons_jac", self._cons_jac_dense(x)) if self.policy in ("shared", "unshared") and self.fmt in ("coo", "csr", "csc")
                     else self._intify(_pack(self._cons_jac_dense(x), self.fmt, self.dup))), const)

    def lag_hess(self, x, y):
        x = np.array(x, dtype=float)
        y = np.array(y, dtype=float)
        const = self.spec.is_qp
        return self._deliver(
            "lag_hess", x.tobytes() + y.tobytes(),
            lambda: (self._shared("lag_hess", self._lag_hess_dense(x, y)) if self.policy in ("shared", "unshared") and self.fmt in ("coo", "csr", "csc")
                     else self._intify(_pack(self._lag_hess_dense(x, y), self.fmt, self.dup))), const)

    def _intify(self, mat):
        if self.mat_dtype and self.fmt in ("coo", "csr", "csc") and not self.dup:
            d = np.asarray(mat.data)
            if d.size and np.all(np.isfinite(d)) and np.all(np.abs(d) < 2 ** 40):
                with np.errstate(all="ignore"):
                    narrow = d.astype(self.mat_dtype)
                if np.array_equal(narrow.astype(float), d):
                    return mat.astype(self.mat_dtype)
        return mat

    def _vec(self, v):
        if self.vec_dtype is None:
            return v
        v = np.asarray(v, dtype=float)
        if np.dtype(self.vec_dtype).kind == "i" and not (np.all(np.isfinite(v)) and np.all(np.abs(v) < 2.0 ** 40)):
            return v   # (out of the integer range: handed over as it is)
        return v.astype(self.vec_dtype)


# --------------------------------------------------------------------------- generators

VAR_KINDS = ["free", "lower", "upper", "boxed", "fixed"]
ROW_KINDS = ["eq0", "eq", "ge", "le", "ranged"]


def _orth(rng, n):
    q, r = np.linalg.qr(rng.normal(size=(n, n)))
    return q * np.sign(np.diag(r))


def _spd(rng, n, kappa_max=100.0):
    kappa = 10.0 ** rng.uniform(0.0, np.log10(kappa_max))
    lam = np.exp(rng.uniform(0.0, np.log(kappa), size=n))
    lam = lam / lam.min()
    if n > 1:
        lam[-1] = kappa
    s = 10.0 ** rng.uniform(-0.3, 0.3)
    U = _orth(rng, n)
    Q = (U * (lam * s)) @ U.T
    return 0.5 * (Q + Q.T)


def _bounds_around(rng, xs, kinds):
    n = xs.shape[0]
    lb = np.full(n, -INF)
    ub = np.full(n, INF)
    for j, k in enumerate(kinds):
        d1 = 0.0 if rng.random() < 0.25 else rng.uniform(0.1, 2.0)
        d2 = 0.0 if rng.random() < 0.25 else rng.uniform(0.1, 2.0)
        if k == "lower":
            lb[j] = xs[j] - d1
        elif k == "upper":
            ub[j] = xs[j] + d2
        elif k == "boxed":
            if d1 == 0.0 and d2 == 0.0:
                d2 = rng.uniform(0.1, 2.0)
            lb[j] = xs[j] - d1
            ub[j] = xs[j] + d2
        elif k == "fixed":
            lb[j] = ub[j] = xs[j]
    return lb, ub


def _row_bounds(rng, cs, kinds):
    m = cs.shape[0]
    l = np.full(m, -INF)
    u = np.full(m, INF)
    for i, k in enumerate(kinds):
        s1 = 0.0 if rng.random() < 0.3 else rng.uniform(0.1, 2.0)
        s2 = 0.0 if rng.random() < 0.3 else rng.uniform(0.1, 2.0)
        if k in ("eq0", "eq"):
            l[i] = u[i] = cs[i]
        elif k == "ge":
            l[i] = cs[i] - s1
        elif k == "le":
            u[i] = cs[i] + s2
        elif k == "ranged":
            if s1 == 0.0 and s2 == 0.0:
                s2 = rng.uniform(0.1, 2.0)
            if rng.random() < 0.12:
                # narrow range: distinct but very close bounds
                s1 = 0.0
                s2 = float(10.0 ** rng.uniform(-12, -4)) * (1.0 + abs(cs[i]))
            l[i] = cs[i] - s1
            u[i] = cs[i] + s2
    return l, u


def start_point(rng, lb, ub, on_bound_prob=0.15, spread=2.0):
    n = lb.shape[0]
    x0 = np.zeros(n)
    for j in range(n):
        l, u = lb[j], ub[j]
        if l == u:
            x0[j] = l
        elif np.isfinite(l) and np.isfinite(u):
            x0[j] = rng.uniform(l, u)
            if rng.random() < on_bound_prob:
                x0[j] = l if rng.random() < 0.5 else u
        elif np.isfinite(l):
            x0[j] = l + abs(rng.normal()) * spread
            if rng.random() < on_bound_prob:
                x0[j] = l
        elif np.isfinite(u):
            x0[j] = u - abs(rng.normal()) * spread
            if rng.random() < on_bound_prob:
                x0[j] = u
        else:
            x0[j] = rng.normal() * spread
    return np.clip(x0, lb, ub)


def _choose_kinds(rng, count, kinds, probs, force=None):
    ks = list(rng.choice(kinds, size=count, p=probs)) if count else []
    if force and count:
        for i, f in enumerate(force[:count]):
            ks[i] = f
        ks = list(rng.permutation(ks))
    return [str(k) for k in ks]


def gen_qp(rng, n=None, m=None, nonlin=False, var_force=None, row_force=None,
           allow_fixed=True, kappa_max=100.0, family=None, row_scale_span=0.0):
    """Strictly convex QP around a feasible point; nonlin=True adds softplus terms and
    quadratic rows (smooth, finite everywhere, possibly nonconvex)."""
    if n is None:
        n = int(rng.integers(1, 13))
    pv = np.array([0.35, 0.15, 0.15, 0.25, 0.10 if allow_fixed else 0.0])
    pv = pv / pv.sum()
    vkinds = _choose_kinds(rng, n, VAR_KINDS, pv, var_force)
    if n > 1 and all(k == "fixed" for k in vkinds):
        vkinds[0] = "free"
    nf = [j for j, k in enumerate(vkinds) if k != "fixed"]
    mmax = max(0, len(nf) - 1)
    if m is None:
        m = int(rng.integers(0, mmax + 1))
    m = min(m, mmax)
    xs = rng.uniform(-2.0, 2.0, size=n)
    # structurally sparse derivatives whose stored pattern depends on x (entries that are exactly zero when a
    # variable sits on a bound at 0.0): only for the nonlinear family
    sparse_struct = bool(nonlin and rng.random() < 0.4)
    zero_lb = np.zeros(n, dtype=bool)
    if sparse_struct:
        for j, k in enumerate(vkinds):
            if k in ("lower", "boxed") and rng.random() < 0.5:
                zero_lb[j] = True
                xs[j] = abs(xs[j])
    lb, ub = _bounds_around(rng, xs, vkinds)
    for j in np.where(zero_lb)[0]:
        lb[j] = 0.0
        if np.isfinite(ub[j]):
            ub[j] = max(ub[j], xs[j] + 0.1)
    Q = _spd(rng, n, kappa_max)
    xunc = xs + rng.normal(size=n) * 1.5
    q = -Q @ xunc
    A = rng.normal(size=(m, n))
    if m > 0:
        # full row rank on the non-fixed columns with singular values in [0.5, 3]
        Anf = A[:, nf]
        U, S, Vt = np.linalg.svd(Anf, full_matrices=False)
        S = rng.uniform(0.5, 3.0, size=S.shape)
        A[:, nf] = (U * S) @ Vt
    rkinds = _choose_kinds(rng, m, ROW_KINDS, [0.2, 0.2, 0.2, 0.2, 0.2], row_force)
    e = rng.normal(size=m)
    sp_a = sp_W = B = None
    if nonlin:
        K = int(rng.integers(1, 4))
        sp_a = rng.uniform(0.2, 2.0, size=K) * rng.choice([1.0, 1.0, 1.0, -0.5], size=K)
        sp_W = rng.normal(size=(K, n)) / np.sqrt(n)
        B = []
        for i in range(m):
            if rng.random() < 0.6:
                G = rng.normal(size=(n, n)) * (0.4 / n)
                if sparse_struct:
                    G = G * (rng.random(size=(n, n)) < min(1.0, 2.5 / n)) * n / 2.0
                B.append(0.5 * (G + G.T))
            else:
                B.append(None)
        if sparse_struct and m > 0:
            A = A * (rng.random(size=A.shape) < 0.5)
    # constraint values at the reference point
    cs = A @ xs + e
    if B is not None:
        for i, b in enumerate(B):
            if b is not None:
                cs[i] += 0.5 * xs @ b @ xs
    for i, k in enumerate(rkinds):
        if k == "eq0":
            e[i] -= cs[i]
            cs[i] = 0.0
    # recompute exactly as the callbacks would, so that eq0 rows really have l=u=0
    l, u = _row_bounds(rng, cs, rkinds)
    for i, k in enumerate(rkinds):
        if k == "eq0":
            l[i] = u[i] = 0.0
        if k == "eq" and l[i] == 0.0:
            l[i] = u[i] = 0.5
            e[i] += 0.5 - cs[i]
    x0 = start_point(rng, lb, ub)
    fam = family or ("NLP" if nonlin else "QP-dense")
    if row_scale_span and m:
        # badly scaled rows: row i (function and bounds) multiplied by 10^U(-span, span); an own random stream, so that
        # the instance is otherwise the one generated without the option
        r2 = rng_for("rowscale", n, m, int(1000 * row_scale_span), int(abs(q[0]) * 1e6) if n else 0)
        f = 10.0 ** r2.uniform(-row_scale_span, row_scale_span, size=m)
        A = A * f[:, None]
        e = e * f
        l = l * f
        u = u * f
        if B is not None:
            B = [None if b is None else b * f[i] for i, b in enumerate(B)]
    return Spec(Q, q, A, e, lb, ub, l, u, sp_a, sp_W, B, x0=x0,
                meta={"family": fam, "xs": xs, "zero_lb": [int(j) for j in np.where(zero_lb)[0]]})


def gen_qp_band(rng, n=None):
    if n is None:
        n = int(rng.integers(50, 301))
    bw = int(rng.integers(1, 3))
    Q = np.zeros((n, n))
    d = rng.uniform(2.0 * bw + 0.3, 2.0 * bw + 1.5, size=n)
    Q[np.arange(n), np.arange(n)] = d
    for k in range(1, bw + 1):
        off = rng.uniform(-1.0, 1.0, size=n - k)
        Q[np.arange(n - k), np.arange(k, n)] = off
        Q[np.arange(k, n), np.arange(n - k)] = off
    pv = [0.4, 0.15, 0.15, 0.25, 0.05]
    vkinds = _choose_kinds(rng, n, VAR_KINDS, pv)
    xs = rng.uniform(-2.0, 2.0, size=n)
    lb, ub = _bounds_around(rng, xs, vkinds)
    nf = np.array([j for j, k in enumerate(vkinds) if k != "fixed"])
    m = int(rng.integers(0, n // 4 + 1))
    m = min(m, len(nf) // 3)
    A = np.zeros((m, n))
    perm = rng.permutation(nf)
    for i in range(m):
        cols = perm[3 * i: 3 * i + int(rng.integers(2, 4))]
        A[i, cols] = rng.uniform(0.5, 2.0, size=len(cols)) * rng.choice([-1.0, 1.0], size=len(cols))
    rkinds = _choose_kinds(rng, m, ROW_KINDS, [0.2, 0.2, 0.2, 0.2, 0.2])
    e = rng.normal(size=m)
    cs = A @ xs + e
    for i, k in enumerate(rkinds):
        if k == "eq0":
            e[i] -= cs[i]
            cs[i] = 0.0
    l, u = _row_bounds(rng, cs, rkinds)
    for i, k in enumerate(rkinds):
        if k == "eq0":
            l[i] = u[i] = 0.0
    xunc = xs + rng.normal(size=n) * 1.0
    q = -Q @ xunc
    x0 = start_point(rng, lb, ub)
    return Spec(Q, q, A, e, lb, ub, l, u, x0=x0, meta={"family": "QP-band", "xs": xs})


def gen_inf(rng, variant=None):
    """Infeasible problems (n <= 4)."""
    variant = variant if variant is not None else int(rng.integers(0, 6))
    n = int(rng.integers(1, 5))
    Q = _spd(rng, n, 10.0)
    q = rng.normal(size=n)
    if variant == 6:
        # (only on request) k parallel rows a.x = b_i whose right-hand sides miss each other by a little less than
        # twice the default tolerance: solvable to tolerance (all rows violated by comparable amounts just below it),
        # and every point of the compromise manifold is stationary for the violation measure
        if n < 2:
            n = 2
            Q = _spd(rng, n, 10.0)
            q = rng.normal(size=n)
        k = int(rng.integers(2, 4))
        a = rng.normal(size=n)
        a = a / np.linalg.norm(a) * rng.uniform(0.7, 1.5)
        gap = 2e-6 * float(rng.uniform(0.72, 0.97))
        b0 = float(rng.normal())
        bs = b0 + gap * np.linspace(0.0, 1.0, k)
        if k == 3:
            bs[1] = b0 + gap * float(rng.choice([0.0, 1.0]))   # two rows on one side
        A = np.tile(a, (k, 1))
        lb = np.full(n, -INF)
        ub = np.full(n, INF)
        spec = Spec(Q, q, A, np.zeros(k), lb, ub, bs, bs, meta={"family": "INF", "variant": "marginal-parallel-rows"})
        spec.x0 = rng.normal(size=n)
        # the minimiser lies far away along the compromise manifold: the rows settle long before optimality is reached
        d = rng.normal(size=n)
        d = d - a * (a @ d) / (a @ a)
        if np.linalg.norm(d) > 1e-6:
            xm = spec.x0 + d / np.linalg.norm(d) * float(rng.uniform(30.0, 100.0))
            spec.q = -spec.Q @ xm
        return spec
    if variant == 5:
        # row unreachable inside a box whose bounds have a large magnitude; the start lies very close to (but not
        # on) the corner that minimises the violation
        n = int(rng.integers(1, 4))
        b = 10.0 ** rng.uniform(2, 5, size=n) * rng.choice([-1.0, 1.0], size=n)
        wdt = rng.uniform(1.0, 50.0, size=n)
        lb, ub = b, b + wdt
        a = np.ones(n)
        spec = Spec(np.eye(n), np.zeros(n), a[None, :], [0.0], lb, ub, [float(ub.sum() + rng.uniform(0.5, 3.0))], [INF],
                    meta={"family": "INF", "variant": "large-bounds-start-near-corner"})
        x0 = ub - 1e-6 * np.abs(ub) * rng.uniform(0.1, 0.9, size=n)
        far = rng.random(size=n) < 0.3
        x0[far] = (lb + rng.uniform(0.1, 0.9, size=n) * wdt)[far]
        spec.x0 = np.clip(x0, lb, ub)
        return spec
    if variant == 3:
        # sum_j b_j x_j^2 + c = 0 on a box with lower bound 0: the violation is minimised in the corner x = 0,
        # where the Jacobian vanishes exactly (reached by projection onto the bounds)
        Bm = np.diag(rng.uniform(0.5, 3.0, size=n))
        spec = Spec(Q * 0.0 + np.eye(n), np.abs(q) + 0.1, np.zeros((1, n)), [float(rng.uniform(0.5, 2.0))],
                    np.zeros(n), np.full(n, float(rng.uniform(2.0, 6.0))), [0.0], [0.0], B=[Bm],
                    meta={"family": "INF", "variant": "zero-jacobian-corner"})
        spec.x0 = rng.uniform(0.2, 1.5, size=n)
        return spec
    if variant == 4:
        # one variable, (x - t)^2 + 1 = 0 with the minimiser t of the violation slightly *inside* a box whose
        # bounds have a large magnitude
        b = float(10.0 ** rng.uniform(2, 5)) * float(rng.choice([-1.0, 1.0]))
        delta = float(10.0 ** rng.uniform(-3, -1)) * abs(b) * 1e-3
        lo, hi = (b, b + 3.0 * abs(b)) if b > 0 else (b - 3.0 * abs(b), b)
        t = lo + delta if b > 0 else hi - delta
        # c(x) = (x - t)^2 + 1 = x^2 - 2 t x + t^2 + 1
        spec = Spec(np.zeros((1, 1)), [0.0], [[-2.0 * t]], [t * t + 1.0], [lo], [hi], [0.0], [0.0],
                    B=[np.array([[2.0]])], meta={"family": "INF", "variant": "minimiser-near-large-bound"})
        spec.x0 = np.array([t + (0.5 if b > 0 else -0.5) * abs(b)])
        spec.x0 = np.clip(spec.x0, lo, hi)
        return spec
    if variant == 0:
        # 1/2 x'Bx + 1 = 0 with B positive definite: no real solution
        Bm = _spd(rng, n, 5.0)
        A = np.zeros((1, n))
        e = np.array([rng.uniform(0.5, 2.0)])
        lb = np.full(n, -INF)
        ub = np.full(n, INF)
        spec = Spec(Q, q, A, e, lb, ub, [0.0], [0.0], B=[Bm], meta={"family": "INF", "variant": "posdef+c=0"})
    elif variant == 1:
        a = rng.normal(size=n)
        a /= np.linalg.norm(a)
        A = np.vstack([a, a])
        e = np.zeros(2)
        lb = np.full(n, -INF)
        ub = np.full(n, INF)
        spec = Spec(Q, q, A, e, lb, ub, [0.0, 2.0], [1.0, 3.0], meta={"family": "INF", "variant": "parallel-disjoint"})
    else:
        a = rng.uniform(0.5, 1.5, size=n)
        A = a[None, :]
        lb = np.zeros(n)
        ub = np.ones(n)
        spec = Spec(Q, q, A, [0.0], lb, ub, [a.sum() + rng.uniform(0.5, 2.0)], [INF],
                    meta={"family": "INF", "variant": "row-unreachable-in-box"})
    spec.x0 = start_point(rng, spec.var_lb, spec.var_ub)
    return spec


def gen_unb(rng, variant=None):
    """Problems unbounded below along a feasible ray."""
    variant = variant if variant is not None else int(rng.integers(0, 5))
    n = int(rng.integers(1, 5))
    if variant == 5:
        # (only on request) linear programme with a small cost and no constraints: every implicit Euler step is solved by
        # the first Newton iteration, so that the inverse step size shrinks in every one of a long run of iterations
        c = -float(10.0 ** rng.uniform(-4, -2)) * np.ones(n)
        spec = Spec(np.zeros((n, n)), c, np.zeros((0, n)), [], np.zeros(n), np.full(n, INF), [], [],
                    meta={"family": "UNB", "variant": "small-cost-lp"})
        spec.x0 = np.ones(n)
        return spec
    if variant == 4:
        # minimise x_0 on the slightly curved feasible set x_1 + b/2 x_0^2 = r: unbounded below, but long
        # steps leave a linearisation error in the row, so the objective can pass the lower limit at a
        # point that is not yet feasible to tolerance
        n = 2
        b = float(10.0 ** rng.uniform(-12, -6))
        Bm = np.zeros((2, 2))
        Bm[0, 0] = b
        q = np.array([float(rng.uniform(0.5, 2.0)), 0.0])
        r = float(rng.normal())
        lb = np.full(n, -INF)
        ub = np.full(n, INF)
        spec = Spec(np.zeros((n, n)), q, np.array([[0.0, 1.0]]), [0.0], lb, ub, [r], [r], B=[Bm],
                    meta={"family": "UNB", "variant": "curved-feasible-ray"})
        spec.x0 = np.array([0.0, r])
        return spec
    if variant == 3:
        # linear objective, one equality row that is NOT orthogonal to the descent direction and is
        # violated at the start: the objective may pass the lower limit before feasibility is reached
        n = max(n, 2)
        q = rng.uniform(0.5, 2.0, size=n)
        a = rng.normal(size=n)
        a[0] = 0.0 if rng.random() < 0.3 else a[0]
        if np.linalg.norm(a) < 0.3:
            a[1] = 1.0
        lb = np.full(n, -INF)
        ub = np.full(n, INF)
        r = float(rng.uniform(1.0, 5.0) * rng.choice([-1.0, 1.0]))
        spec = Spec(np.zeros((n, n)), q, a[None, :], [0.0], lb, ub, [r], [r],
                    meta={"family": "UNB", "variant": "linear+violated-equality"})
        spec.x0 = np.zeros(n)
        return spec
    if variant == 0:
        # linear objective, no constraints, one-sided bounds that do not block the ray
        q = rng.uniform(0.5, 2.0, size=n)
        Q = np.zeros((n, n))
        lb = np.full(n, -INF)
        ub = rng.uniform(0.0, 2.0, size=n)
        spec = Spec(Q, q, np.zeros((0, n)), [], lb, ub, [], [], meta={"family": "UNB", "variant": "linear"})
    elif variant == 1:
        # concave along a free direction
        Q = -np.diag(rng.uniform(0.1, 1.0, size=n))
        q = rng.normal(size=n)
        lb = np.full(n, -INF)
        ub = np.full(n, INF)
        spec = Spec(Q, q, np.zeros((0, n)), [], lb, ub, [], [], meta={"family": "UNB", "variant": "concave"})
    else:
        # linear objective with an equality constraint orthogonal to the descent ray
        n = max(n, 2)
        q = rng.uniform(0.5, 2.0, size=n)
        Q = np.zeros((n, n))
        a = rng.normal(size=n)
        a -= q * (a @ q) / (q @ q)
        if np.linalg.norm(a) < 1e-3:
            a = np.zeros(n)
            a[0], a[1] = q[1], -q[0]
        lb = np.full(n, -INF)
        ub = np.full(n, INF)
        spec = Spec(Q, q, a[None, :], [0.0], lb, ub, [rng.normal()], [INF],
                    meta={"family": "UNB", "variant": "linear+row"})
        spec.cons_lb[0] = -abs(spec.cons_lb[0]) - 1.0
    spec.x0 = start_point(rng, spec.var_lb, spec.var_ub, spread=0.5)
    if spec.m:
        # start feasible
        spec.x0 = np.zeros(spec.n)
        spec.x0 = np.clip(spec.x0, spec.var_lb, spec.var_ub)
    return spec


def gen_deg(rng, variant=None):
    """Degenerate but well-posed problems."""
    variant = variant if variant is not None else int(rng.integers(0, 6))
    if variant == 0:  # duplicate rows
        s = gen_qp(rng, n=int(rng.integers(2, 7)), m=1, row_force=[str(rng.choice(["eq", "ge", "ranged"]))])
        if s.m == 1:
            s = Spec(s.Q, s.q, np.vstack([s.A, s.A]), np.concatenate([s.e, s.e]), s.var_lb, s.var_ub,
                     np.concatenate([s.cons_lb, s.cons_lb]), np.concatenate([s.cons_ub, s.cons_ub]),
                     x0=s.x0, meta=dict(s.meta))
        s.meta.update(family="DEG", variant="duplicate-rows")
    elif variant == 1:  # zero Jacobian row, satisfied
        s = gen_qp(rng, n=int(rng.integers(1, 6)), m=0)
        n = s.n
        s = Spec(s.Q, s.q, np.zeros((1, n)), [0.3], s.var_lb, s.var_ub, [0.0], [1.0], x0=s.x0, meta=dict(s.meta))
        s.meta.update(family="DEG", variant="zero-row")
    elif variant == 2:  # all variables fixed
        n = int(rng.integers(1, 5))
        s = gen_qp(rng, n=n, m=0, var_force=["fixed"] * n)
        s.var_lb = np.copy(s.meta["xs"])
        s.var_ub = np.copy(s.meta["xs"])
        s.x0 = np.copy(s.var_lb)
        s.meta.update(family="DEG", variant="all-fixed")
    elif variant == 3:  # no constraints at all, free variables
        s = gen_qp(rng, n=int(rng.integers(1, 8)), m=0, var_force=["free"] * 8)
        s.var_lb[:] = -INF
        s.var_ub[:] = INF
        s.meta.update(family="DEG", variant="unconstrained")
    elif variant == 6:  # zero Jacobian row of an equality that is satisfied everywhere (only on request)
        s = gen_qp(rng, n=int(rng.integers(1, 6)), m=0)
        n = s.n
        s = Spec(s.Q, s.q, np.zeros((1, n)), [0.3], s.var_lb, s.var_ub, [0.3], [0.3], x0=s.x0, meta=dict(s.meta))
        s.meta.update(family="DEG", variant="zero-row-eq")
    elif variant == 7:  # the last variable(s) enter linearly: trailing columns of the Hessian are structurally empty (only on request)
        n = int(rng.integers(2, 6))
        k = int(rng.integers(1, n))
        d = np.concatenate([rng.uniform(0.5, 3.0, size=n - k), np.zeros(k)])
        q = rng.normal(size=n)
        lb = -rng.uniform(0.5, 2.0, size=n)
        ub = rng.uniform(0.5, 2.0, size=n)
        s = Spec(np.diag(d), q, np.zeros((0, n)), [], lb, ub, [], [], x0=np.zeros(n),
                 meta={"family": "DEG", "variant": "linear-variables", "xs": np.zeros(n)})
    elif variant == 4:  # n = 1
        s = gen_qp(rng, n=1, m=0)
        s.meta.update(family="DEG", variant="n=1")
    else:  # bound active with zero multiplier: unconstrained minimiser sits on a bound
        n = int(rng.integers(1, 6))
        s = gen_qp(rng, n=n, m=0, var_force=["lower"] * n)
        xm = -np.linalg.solve(s.Q, s.q)
        s.var_lb = np.copy(xm)
        s.var_ub = np.full(n, INF)
        s.x0 = xm + np.abs(rng.normal(size=n))
        s.meta.update(family="DEG", variant="weakly-active")
    return s


def gen_ncvx(rng, variant=None):
    """Nonconvex, box-bounded problems whose first trial system lamb*I + H is exactly
    singular for lamb_init = 1 (natural linear-solver failure)."""
    n = int(rng.integers(1, 5))
    d = rng.integers(-3, 4, size=n).astype(float)
    d[int(rng.integers(0, n))] = -1.0
    Q = np.diag(d)
    q = rng.integers(-2, 3, size=n).astype(float)
    lb = -rng.integers(1, 4, size=n).astype(float)
    ub = rng.integers(1, 4, size=n).astype(float)
    x0 = np.zeros(n)
    return Spec(Q, q, np.zeros((0, n)), [], lb, ub, [], [], x0=x0, meta={"family": "NCVX"})


def gen_intqp(rng, n=None):
    """Convex QP with small integer data; Jacobian and Hessian are handed over with an integer dtype (int64, int32,
    int8) or, for 0/1 incidence rows (and a unit Hessian in half of those cases), as bool matrices."""
    n = int(rng.integers(2, 7)) if n is None else n
    m = int(rng.integers(1, n))
    mat_dtype = str(rng.choice(["int64", "int64", "int32", "int8", "bool", "bool"]))
    L = np.tril(rng.integers(-2, 3, size=(n, n))).astype(float)
    Q = L @ L.T + np.diag(rng.integers(1, 4, size=n)).astype(float)
    q = rng.integers(-5, 6, size=n).astype(float)
    A = rng.integers(-3, 4, size=(m, n)).astype(float)
    if mat_dtype == "bool":
        A = (rng.random(size=(m, n)) < 0.5).astype(float)
        if rng.random() < 0.5:
            Q = np.eye(n)
    for i in range(m):
        if not A[i].any():
            A[i, int(rng.integers(0, n))] = 1.0
    xs = rng.integers(-2, 3, size=n).astype(float)
    kinds = _choose_kinds(rng, n, VAR_KINDS, [0.4, 0.2, 0.2, 0.2, 0.0])
    lb, ub = _bounds_around(rng, xs, kinds)
    cs = A @ xs
    rk = _choose_kinds(rng, m, ROW_KINDS, [0.2, 0.2, 0.2, 0.2, 0.2])
    l, u = _row_bounds(rng, cs, rk)
    x0 = start_point(rng, lb, ub)
    return Spec(Q, q, A, np.zeros(m), lb, ub, l, u, x0=x0, meta={"family": "INTQP", "xs": xs, "mat_dtype": mat_dtype})


def gen_narrow(rng):
    """Feasible convex QP with one row whose range [L, L+w] is narrow relative to its large offset
    (w between 1e-3 and 0.4e-5*L, L = 1e4..1e7) and a box that excludes the lower end of the range but not the range:
    the minimiser sits at the box corner with c(x) = L + 0.6 w, strictly inside the range."""
    n = int(rng.integers(1, 4))
    L = float(10.0 ** rng.uniform(4.0, 7.0))
    w = float(10.0 ** rng.uniform(-3.0, np.log10(0.4e-5 * L)))
    sign = 1.0 if rng.random() < 0.7 else -1.0   # (a negative offset mirrors the construction)
    A = np.ones((1, n)) * sign
    lo = (L + 0.6 * w) / n
    lb = np.full(n, lo) * sign if sign > 0 else np.full(n, -INF)
    ub = np.full(n, INF) if sign > 0 else np.full(n, -lo) * 1.0
    if sign < 0:
        # x_j <= -lo, row -sum(x) in [L, L+w]
        lb = np.full(n, -INF)
        ub = np.full(n, -lo)
    Q = np.diag(rng.uniform(0.5, 2.0, size=n))
    # the objective (positive near the corner, so that the objective limit plays no role) pulls towards the
    # excluded side: its unconstrained minimiser is at -q/Q, on the other side of the origin
    q = sign * rng.uniform(1.0, 5.0, size=n)
    xs = np.full(n, lo) * sign
    x0 = xs + sign * rng.uniform(0.0, 0.3 * w / n, size=n)
    return Spec(Q, q, A, np.zeros(1), lb, ub, [L], [L + w], x0=x0, meta={"family": "NARROW", "xs": xs, "L": L, "w": w})


def gen_f32qp(rng, **kw):
    """QP whose matrices hold single-precision data (every entry of Q and A is a float32 value) and are handed
    over as float32 sparse matrices."""
    s = gen_qp(rng, **kw)
    s.Q = s.Q.astype(np.float32).astype(float)
    s.Q = 0.5 * (s.Q + s.Q.T)
    s.A = s.A.astype(np.float32).astype(float)
    s.meta["family"] = "F32QP"
    s.meta["mat_dtype"] = "float32"
    return s


FAMILIES = {
    "QP": lambda rng, **kw: gen_qp(rng, **kw),
    "NLP": lambda rng, **kw: gen_qp(rng, nonlin=True, **kw),
    "BAND": lambda rng, **kw: gen_qp_band(rng, **kw),
    "INF": lambda rng, **kw: gen_inf(rng, **kw),
    "UNB": lambda rng, **kw: gen_unb(rng, **kw),
    "DEG": lambda rng, **kw: gen_deg(rng, **kw),
    "NCVX": lambda rng, **kw: gen_ncvx(rng, **kw),
    "INTQP": lambda rng, **kw: gen_intqp(rng, **kw),
    "F32QP": lambda rng, **kw: gen_f32qp(rng, **kw),
    "NARROW": lambda rng, **kw: gen_narrow(rng, **kw),
}


def gen_file(rng, path=None):
    """A stored witness instance (independent of the generators' random streams)."""
    import json
    import os

    from . import boot

    with open(os.path.join(boot.VERIF, path)) as f:
        d = json.load(f)
    fl = lambda a: np.array([float(v) for v in a])  # noqa: E731
    n = len(d["q"])
    B = None
    if d.get("B") is not None:
        B = [None if b is None else np.array(b, dtype=float) for b in d["B"]]
    spec = Spec(np.array(d["Q"], dtype=float).reshape(n, n), np.array(d["q"], dtype=float),
                np.array(d["A"], dtype=float).reshape(-1, n), np.array(d["e"], dtype=float), fl(d["var_lb"]),
                fl(d["var_ub"]), fl(d["cons_lb"]), fl(d["cons_ub"]),
                sp_a=None if d.get("sp_a") is None else np.array(d["sp_a"], dtype=float),
                sp_W=None if d.get("sp_W") is None else np.array(d["sp_W"], dtype=float).reshape(-1, n), B=B,
                x0=np.array(d["x0"], dtype=float), y0=None if d.get("y0") is None else np.array(d["y0"], dtype=float),
                meta={"family": d.get("family", "QP-dense"),
                      "xs": np.array(d["xs"] if d.get("xs") is not None else d["x0"], dtype=float),
                      "witness": path})
    return spec


FAMILIES["FILE"] = lambda rng, **kw: gen_file(rng, **kw)


def make_spec(fam, gseed, **kw):
    """Deterministic spec from (family, seed list, options) -- what a replay file stores."""
    rng = rng_for("spec", fam, *gseed)
    spec = FAMILIES[fam](rng, **kw)
    spec.meta.setdefault("family", fam)
    spec.meta["gseed"] = list(gseed)
    return spec
