"""Independent dense reference model (numpy only; imports nothing from pygradflow).

Written from the mathematical definitions in the property statements and the
docstrings of the repository, not from its code:

* `user_dense(spec)`            the user's problem as dense closures
* `internal_dense(P, w)`        the power-of-two change of variables + slack/offset
                                embedding of a dense problem (tolerance-level oracle)
* `RefTransform(problem, w)`    the same transformation composed with *the user's own
                                callbacks* using exact ldexp arithmetic (bit-level oracle)
* augmented Lagrangian, residuals, implicit-Euler residual and generalised Jacobian,
  dense semismooth Newton step
* KKT oracle and infeasible-stationarity oracle in the user's space
"""
import numpy as np

INF = np.inf


# ------------------------------------------------------------------ dense problems


class Dense:
    """n, m, lb, ub, l, u and closures f, g, c, J, H(x, y)."""

    def __init__(self, n, m, lb, ub, l, u, f, g, c, J, H):
        self.n, self.m = n, m
        self.lb, self.ub, self.l, self.u = lb, ub, l, u
        self.f, self.g, self.c, self.J, self.H = f, g, c, J, H


def _softplus(t):
    return np.maximum(t, 0.0) + np.log1p(np.exp(-np.abs(t)))


def _sigmoid(t):
    return 0.5 * (1.0 + np.tanh(0.5 * t))


def user_dense(spec):
    Q, q, A, e = spec.Q, spec.q, spec.A, spec.e
    a, W, B = spec.sp_a, spec.sp_W, spec.B
    n, m = spec.n, spec.m

    def f(x):
        v = 0.5 * np.dot(x, Q.dot(x)) + np.dot(q, x)
        if a.size:
            v = v + np.sum(a * _softplus(W.dot(x)))
        return float(v)

    def g(x):
        r = Q.dot(x) + q
        if a.size:
            r = r + W.T.dot(a * _sigmoid(W.dot(x)))
        return r

    def c(x):
        r = A.dot(x) + e
        if B is not None:
            r = r + np.array([0.0 if b is None else 0.5 * np.dot(x, b.dot(x)) for b in B])
        return r

    def J(x):
        r = np.array(A, dtype=float, copy=True)
        if B is not None:
            for i, b in enumerate(B):
                if b is not None:
                    r[i] = r[i] + b.dot(x)
        return r

    def H(x, y):
        r = np.array(Q, dtype=float, copy=True)
        if a.size:
            s = _sigmoid(W.dot(x))
            r = r + (W.T * (a * s * (1.0 - s))).dot(W)
        if B is not None:
            for i, b in enumerate(B):
                if b is not None:
                    r = r + y[i] * b
        return r

    def cabs(x):
        r = np.abs(A).dot(np.abs(x)) + np.abs(e)
        if B is not None:
            r = r + np.array([0.0 if b is None else 0.5 * np.dot(np.abs(x), np.abs(b).dot(np.abs(x))) for b in B])
        return r

    aQ, aq, aA, aW, aa = np.abs(Q), np.abs(q), np.abs(A), np.abs(W), np.abs(a)

    def fabs(x):
        ax = np.abs(x)
        v = 0.5 * ax.dot(aQ.dot(ax)) + aq.dot(ax)
        if a.size:
            v = v + np.sum(aa * (_softplus(W.dot(x)) + 1.0))
        return float(v)

    def gabs(x):
        r = aQ.dot(np.abs(x)) + aq
        if a.size:
            r = r + aW.T.dot(aa)
        return r

    def Jabs(x):
        r = np.array(aA, copy=True)
        if B is not None:
            for i, b in enumerate(B):
                if b is not None:
                    r[i] = r[i] + np.abs(b).dot(np.abs(x))
        return r

    def Habs(x, yabs):
        r = np.array(aQ, copy=True)
        if a.size:
            r = r + (aW.T * aa).dot(aW)
        if B is not None:
            for i, b in enumerate(B):
                if b is not None:
                    r = r + yabs[i] * np.abs(b)
        return r

    P = Dense(n, m, spec.var_lb, spec.var_ub, spec.cons_lb, spec.cons_ub, f, g, c, J, H)
    P.cabs, P.fabs, P.gabs, P.Jabs, P.Habs = cabs, fabs, gabs, Jabs, Habs
    return P


class Weights:
    def __init__(self, vw, cw, ow=0):
        self.vw = np.asarray(vw, dtype=np.int64)
        self.cw = np.asarray(cw, dtype=np.int64)
        self.ow = int(ow)

    @staticmethod
    def zero(n, m):
        return Weights(np.zeros(n, dtype=np.int64), np.zeros(m, dtype=np.int64), 0)


def slack_rows(l, u):
    return np.array([i for i in range(len(l)) if l[i] != u[i]], dtype=int)


def internal_dense(P, w=None):
    """The problem the core algorithm is meant to see: x_s = 2^vw x, f_s = 2^ow f,
    c_s = 2^cw c; rows with l != u get a slack s in [l_s, u_s] and read c_s - s = 0,
    equality rows read c_s - l_s = 0.  Variables: [x_s, slacks]."""
    if w is None:
        w = Weights.zero(P.n, P.m)
    sv = np.ldexp(1.0, w.vw)
    sc = np.ldexp(1.0, w.cw)
    so = np.ldexp(1.0, w.ow)
    lb_s, ub_s = P.lb * sv, P.ub * sv
    l_s, u_s = P.l * sc, P.u * sc
    S = slack_rows(l_s, u_s)
    ns = len(S)
    n, m = P.n, P.m
    N = n + ns
    off = np.where(l_s == u_s, l_s, 0.0)
    E = np.zeros((m, ns))
    for k, i in enumerate(S):
        E[i, k] = 1.0

    def split(z):
        return z[:n] / sv, z[n:]

    def f(z):
        x, _ = split(z)
        return so * P.f(x)

    def g(z):
        x, _ = split(z)
        return np.concatenate([so * P.g(x) / sv, np.zeros(ns)])

    def c(z):
        x, s = split(z)
        return sc * P.c(x) - off - E.dot(s)

    def J(z):
        x, _ = split(z)
        Js = (sc[:, None] * P.J(x)) / sv[None, :]
        return np.hstack([Js, -E])

    def H(z, y):
        x, _ = split(z)
        Hu = so * P.H(x, y * sc / so) / sv[:, None] / sv[None, :]
        out = np.zeros((N, N))
        out[:n, :n] = Hu
        return out

    D = Dense(N, m, np.concatenate([lb_s, l_s[S]]), np.concatenate([ub_s, u_s[S]]),
              np.zeros(m), np.zeros(m), f, g, c, J, H)
    if hasattr(P, "fabs"):
        # magnitude bounds (sum of absolute values of all terms) for rounding allowances
        D.fabs = lambda z: so * P.fabs(split(z)[0])
        D.gabs = lambda z: np.concatenate([so * P.gabs(split(z)[0]) / sv, np.zeros(ns)])
        D.cabs = lambda z: sc * P.cabs(split(z)[0]) + np.abs(off) + E.dot(np.abs(split(z)[1]))
        D.Jabs = lambda z: np.hstack([(sc[:, None] * P.Jabs(split(z)[0])) / sv[None, :], E])

        def Habs(z, yabs):
            out = np.zeros((N, N))
            out[:n, :n] = so * P.Habs(split(z)[0], yabs * sc / so) / sv[:, None] / sv[None, :]
            return out

        D.Habs = Habs
    D.S = S
    D.n_orig = n
    D.weights = w
    return D


def to_internal_point(P, w, x, y):
    """(x, y) in user space -> internal point: slacks start at proj_[l_s,u_s](c_s(x))."""
    sv = np.ldexp(1.0, w.vw)
    sc = np.ldexp(1.0, w.cw)
    so = np.ldexp(1.0, w.ow)
    xs = x * sv
    l_s, u_s = P.l * sc, P.u * sc
    S = slack_rows(l_s, u_s)
    cs = sc * P.c(x)
    s = np.clip(cs[S], l_s[S], u_s[S]) if len(S) else np.zeros(0)
    return np.concatenate([xs, s]), y * so / sc


# ------------------------------------------------------------------ bit-level transform


class RefTransform:
    """Exact composition of the user's callbacks with the change of variables.

    `prob` is any object with the Problem interface (a *separate* instance from the one
    handed to pygradflow).  All scaling is done with ldexp, i.e. exactly, so the results
    are comparable bit for bit with what pygradflow's transformed problem returns.
    """

    def __init__(self, prob, w=None):
        self.p = prob
        n = prob.var_lb.shape[0]
        m = int(prob.num_cons)
        self.n, self.m = n, m
        self.w = w if w is not None else Weights.zero(n, m)
        w = self.w
        self.lb_s = np.ldexp(prob.var_lb, w.vw)
        self.ub_s = np.ldexp(prob.var_ub, w.vw)
        self.l_s = np.ldexp(prob.cons_lb, w.cw)
        self.u_s = np.ldexp(prob.cons_ub, w.cw)
        self.S = slack_rows(self.l_s, self.u_s)
        self.ns = len(self.S)
        self.var_lb = np.concatenate([self.lb_s, self.l_s[self.S]])
        self.var_ub = np.concatenate([self.ub_s, self.u_s[self.S]])

    def x_user(self, z):
        return np.ldexp(z[: self.n], -self.w.vw)

    def obj(self, z):
        return np.ldexp(float(self.p.obj(self.x_user(z))), self.w.ow)

    def obj_grad(self, z):
        g = np.asarray(self.p.obj_grad(self.x_user(z)), dtype=float)
        g = np.ldexp(g, self.w.ow - self.w.vw)
        return np.concatenate([g, np.zeros(self.ns)])

    def cons(self, z):
        if self.m == 0:
            return np.zeros(0)
        c = np.array(self.p.cons(self.x_user(z)), dtype=float, copy=True)
        c = np.ldexp(c, self.w.cw)
        out = np.empty(self.m)
        s = z[self.n:]
        k = 0
        for i in range(self.m):
            if self.l_s[i] == self.u_s[i]:
                out[i] = c[i] - self.l_s[i] if self.l_s[i] != 0.0 else c[i]
            else:
                out[i] = c[i] - s[k]
                k += 1
        return out

    def cons_jac(self, z):
        if self.m == 0:
            return np.zeros((0, self.n + self.ns))
        J = np.asarray(self.p.cons_jac(self.x_user(z)).toarray(), dtype=float)
        Js = np.ldexp(J, self.w.cw[:, None] - self.w.vw[None, :])
        E = np.zeros((self.m, self.ns))
        for k, i in enumerate(self.S):
            E[i, k] = -1.0
        return np.hstack([Js, E])

    def lag_hess(self, z, y):
        yu = np.ldexp(y, self.w.cw - self.w.ow)
        H = np.asarray(self.p.lag_hess(self.x_user(z), yu).toarray(), dtype=float)
        Hs = np.ldexp(H, self.w.ow - self.w.vw[:, None] - self.w.vw[None, :])
        N = self.n + self.ns
        out = np.zeros((N, N))
        out[: self.n, : self.n] = Hs
        return out

    def to_internal(self, x, y):
        xs = np.ldexp(np.asarray(x, dtype=float), self.w.vw)
        ys = np.ldexp(np.asarray(y, dtype=float), -(self.w.cw - self.w.ow))
        if self.ns:
            cs = np.ldexp(np.asarray(self.p.cons(np.ldexp(xs, -self.w.vw)), dtype=float), self.w.cw)
            s = np.minimum(np.maximum(cs[self.S], self.l_s[self.S]), self.u_s[self.S])
        else:
            s = np.zeros(0)
        return np.concatenate([xs, s]), ys

    def to_user(self, z, y, d):
        x = np.ldexp(z[: self.n], -self.w.vw)
        yu = np.ldexp(y, self.w.cw - self.w.ow)
        du = np.ldexp(d[: self.n], self.w.vw - self.w.ow)
        return x, yu, du


# ------------------------------------------------------------------ iterate-level maths


def aug_lag(D, x, y, rho):
    c = D.c(x)
    return D.f(x) + 0.5 * rho * np.dot(c, c) + np.dot(c, y)


def aug_lag_dx(D, x, y, rho):
    return D.g(x) + D.J(x).T.dot(rho * D.c(x) + y)


def aug_lag_dxx(D, x, y, rho):
    J = D.J(x)
    return D.H(x, y + rho * D.c(x)) + rho * J.T.dot(J)


def active_flags(D, x, active_tol):
    at_lo = np.abs(x - D.lb) <= active_tol
    at_up = np.abs(D.ub - x) <= active_tol
    both = at_lo & at_up
    return at_lo & ~both, at_up & ~both, both


def bounds_dual(D, x, y, active_tol):
    r = -(D.g(x) + D.J(x).T.dot(y))
    lo, up, both = active_flags(D, x, active_tol)
    d = np.zeros_like(x)
    d[up] = np.maximum(r[up], 0.0)
    d[lo] = np.minimum(r[lo], 0.0)
    d[both] = r[both]
    return d


def _ninf(v):
    return float(np.max(np.abs(v))) if v.size else 0.0


def stat_res(D, x, y, active_tol):
    return _ninf(D.g(x) + D.J(x).T.dot(y) + bounds_dual(D, x, y, active_tol))


def bound_violation(D, x):
    return max(_ninf(np.maximum(D.lb - x, 0.0)), _ninf(np.maximum(x - D.ub, 0.0)))


def cons_violation(D, x):
    """Internal problems have equality rows c(x) = 0 only."""
    return _ninf(D.c(x))


def total_res(D, x, y, active_tol):
    return max(cons_violation(D, x), bound_violation(D, x), stat_res(D, x, y, active_tol))


def infeas_stationarity(D, x, active_tol):
    """Projected gradient of 1/2 |c|^2 over the box (internal problem)."""
    r = D.J(x).T.dot(D.c(x))
    lo, up, both = active_flags(D, x, active_tol)
    r = np.array(r, copy=True)
    r[lo] = np.minimum(r[lo], 0.0)
    r[up] = np.maximum(r[up], 0.0)
    return _ninf(r), r


def proj_point(D, xh, x, y, rho, dt, tau=None):
    dx = aug_lag_dx(D, x, y, rho)
    if tau is None:
        return xh - dt * dx
    lam = 1.0 / dt
    return (1.0 - tau * lam) * x + (tau * lam) * xh - tau * dx


def active_set(D, p, slack=1e-8):
    return (p < D.lb - slack) | (p > D.ub + slack)


def implicit_F(D, xh, yh, x, y, rho, dt, act=None):
    p = proj_point(D, xh, x, y, rho, dt)
    if act is None:
        act = active_set(D, p)
    pp = np.array(p, copy=True)
    pp[act] = np.minimum(np.maximum(p[act], D.lb[act]), D.ub[act])
    return np.concatenate([x - pp, y - (yh + dt * D.c(x))]), act


def implicit_dF(D, x, y, rho, dt, act):
    n, m = D.n, D.m
    Hxx = aug_lag_dxx(D, x, y, rho)
    J = D.J(x)
    inact = (~act).astype(float)
    F11 = np.eye(n) + dt * (inact[:, None] * Hxx)
    F12 = dt * (inact[:, None] * J.T)
    F21 = -dt * J
    F22 = np.eye(m)
    return np.block([[F11, F12], [F21, F22]])


def scaled_F(D, xh, yh, x, y, rho, dt, act=None):
    lam = 1.0 / dt
    p = lam * xh - aug_lag_dx(D, x, y, rho)
    lbs, ubs = lam * D.lb, lam * D.ub
    if act is None:
        act = (p < lbs - 1e-8) | (p > ubs + 1e-8)
    pp = np.array(p, copy=True)
    pp[act] = np.minimum(np.maximum(p[act], lbs[act]), ubs[act])
    return np.concatenate([lam * x - pp, -(lam * y - (lam * yh + D.c(x)))]), act


def scaled_dF(D, x, y, rho, dt, act):
    n, m = D.n, D.m
    lam = 1.0 / dt
    Hxx = aug_lag_dxx(D, x, y, rho)
    J = D.J(x)
    inact = (~act).astype(float)
    return np.block([[lam * np.eye(n) + inact[:, None] * Hxx, inact[:, None] * J.T],
                     [-J, lam * np.eye(m)]])


def newton_step(D, xh, yh, x, y, rho, dt, act, deriv_at=None):
    """Semismooth Newton step for F(z)=0 at (x,y), derivative evaluated at `deriv_at`
    (default: the same point), for the given active set.  Returns (x+, y+, s, cond)."""
    F, _ = implicit_F(D, xh, yh, x, y, rho, dt, act)
    xd, yd = (x, y) if deriv_at is None else deriv_at
    dF = implicit_dF(D, xd, yd, rho, dt, act)
    s = np.linalg.solve(dF, F)
    xn = np.minimum(np.maximum(x - s[: D.n], D.lb), D.ub)
    yn = y - s[D.n:]
    return xn, yn, s, float(np.linalg.cond(dF))


# ------------------------------------------------------------------ user-space oracles


def kkt_check(P, w, x, y, d, tol, active_tol):
    """KKT conditions of the user's problem for a result (x, y, d).

    Each tolerance is `tol` times the power-of-two factor of the corresponding quantity
    (DESIGN C01), times (1+1e-6), plus a summation-order allowance 1e-13*magnitude.
    Returns a list of human-readable failures (empty = conditions hold)."""
    fails = []
    n, m = P.n, P.m
    sv = np.ldexp(1.0, w.vw)
    sc = np.ldexp(1.0, w.cw)
    so = np.ldexp(1.0, w.ow)
    rel = 1.0 + 1e-6
    if not (np.all(np.isfinite(x)) and np.all(np.isfinite(y)) and np.all(np.isfinite(d))):
        return ["non-finite x/y/d"]
    # bounds exactly
    if np.any(x < P.lb) or np.any(x > P.ub):
        j = int(np.argmax(np.maximum(P.lb - x, x - P.ub)))
        fails.append(f"bound violated exactly: x[{j}]={x[j]!r} not in [{P.lb[j]!r},{P.ub[j]!r}]")
    g = P.g(x)
    Jm = P.J(x) if m else np.zeros((0, n))
    c = P.c(x) if m else np.zeros(0)
    # stationarity
    r = g + Jm.T.dot(y) + d
    mag = np.abs(g) + np.abs(Jm).T.dot(np.abs(y)) + np.abs(d)
    lim = tol * rel * sv / so + 1e-13 * mag
    bad = np.abs(r) > lim
    if np.any(bad):
        j = int(np.argmax(np.abs(r) / lim))
        fails.append(f"stationarity: |grad f + J'y + d|[{j}]={abs(r[j]):.3e} > {lim[j]:.3e}")
    # feasibility of rows
    cmag = P.cabs(x) if (m and hasattr(P, "cabs")) else np.abs(c)
    ctol = tol * rel / sc + 1e-13 * (np.abs(c) + cmag)
    if m:
        bad = (c < P.l - ctol) | (c > P.u + ctol)
        if np.any(bad):
            i = int(np.argmax(np.maximum(P.l - c, c - P.u) * sc))
            fails.append(f"row feasibility: c[{i}]={c[i]!r} not in [{P.l[i]!r},{P.u[i]!r}] within {ctol[i]:.3e}")
        # complementarity of row multipliers (sign convention of the repository:
        # y>0 only at the upper side, y<0 only at the lower side)
        ytol = tol * rel * sc / so
        atol_c = (tol + active_tol) * rel / sc + 1e-13 * (np.abs(c) + cmag)
        for i in range(m):
            if P.l[i] == P.u[i]:
                continue
            if y[i] > ytol[i] and not (c[i] >= P.u[i] - atol_c[i]):
                fails.append(f"complementarity: y[{i}]={y[i]:.3e}>0 but c={c[i]!r} below upper side {P.u[i]!r}")
            if y[i] < -ytol[i] and not (c[i] <= P.l[i] + atol_c[i]):
                fails.append(f"complementarity: y[{i}]={y[i]:.3e}<0 but c={c[i]!r} above lower side {P.l[i]!r}")
    # bound multipliers
    atol_x = active_tol * rel / sv
    for j in range(n):
        if d[j] == 0.0:
            continue
        at_lo = abs(x[j] - P.lb[j]) <= atol_x[j] if np.isfinite(P.lb[j]) else False
        at_up = abs(P.ub[j] - x[j]) <= atol_x[j] if np.isfinite(P.ub[j]) else False
        if not (at_lo or at_up):
            fails.append(f"d[{j}]={d[j]:.3e} non-zero away from both bounds")
        elif at_lo and at_up:
            pass
        elif at_up and d[j] < 0.0:
            fails.append(f"d[{j}]={d[j]:.3e} negative at upper bound")
        elif at_lo and d[j] > 0.0:
            fails.append(f"d[{j}]={d[j]:.3e} positive at lower bound")
    return fails


def row_distance(P, w, x):
    """Scaled distance of c(x) to [l,u] (inf norm) and the scaled residual vector."""
    sc = np.ldexp(1.0, w.cw)
    c = P.c(x)
    r = (c - np.minimum(np.maximum(c, P.l), P.u)) * sc
    return _ninf(r), r


def user_infeas_stationarity(P, w, x, active_tol):
    """Projected gradient (over the scaled box) of 1/2 dist^2(c_s(x_s),[l_s,u_s])."""
    sv = np.ldexp(1.0, w.vw)
    sc = np.ldexp(1.0, w.cw)
    _, r = row_distance(P, w, x)
    Js = (sc[:, None] * P.J(x)) / sv[None, :]
    gr = Js.T.dot(r)
    xs = x * sv
    lo = np.abs(xs - P.lb * sv) <= active_tol
    up = np.abs(P.ub * sv - xs) <= active_tol
    both = lo & up
    gr = np.array(gr, copy=True)
    gr[lo & ~both] = np.minimum(gr[lo & ~both], 0.0)
    gr[up & ~both] = np.maximum(gr[up & ~both], 0.0)
    gr[both] = 0.0
    return _ninf(gr), float(np.sum(np.abs(Js))) if Js.size else 0.0
