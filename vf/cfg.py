"""Configuration space: plain-dict configurations <-> pygradflow Params, samplers and
covering arrays.  A configuration dict only contains JSON data so that it can be stored
in replay files."""
import itertools

import numpy as np

from . import boot  # noqa: F401

NEWTON = ["Simplified", "Full", "ActiveSet", "Globalized"]
STEP_SOLVER = ["Standard", "Extended", "Symmetric", "Asymmetric"]
LINEAR = ["LU", "GMRES", "MINRES"]
CONTROL = ["Exact", "Fixed", "ResiduumRatio", "DistanceRatio"]
PENALTY = ["Constant", "DualNorm", "DualEquilibration", "ParetoDecrease", "ObjectiveFilter", "LagrangianFilter"]
ACTIVE = ["Standard", "Explicit", "SmallestActiveSet", "LargestActiveSet"]
SCALING = ["none", "custom", "GradJac", "Nominal", "KKT"]

AXES = {
    "newton": NEWTON, "step_solver": STEP_SOLVER, "linear": LINEAR, "control": CONTROL,
    "penalty": PENALTY, "active": ACTIVE, "scaling": SCALING,
}

DEFAULT = {"newton": "Simplified", "step_solver": "Symmetric", "linear": "LU", "control": "DistanceRatio",
           "penalty": "DualNorm", "active": "Standard", "scaling": "none"}


def valid(cfg):
    if cfg.get("linear") == "MINRES" and cfg.get("step_solver") != "Symmetric":
        return False
    return True


def normalise(cfg):
    c = dict(DEFAULT)
    c.update(cfg)
    if c["active"] == "Explicit" and "tau" not in c:
        c["tau"] = 0.5
    return c


def pairwise(axes=None, seed=0, fixed=None):
    """Greedy pairwise covering array over the algorithmic axes (valid rows only)."""
    axes = axes or AXES
    names = list(axes)
    rng = np.random.default_rng([seed, 77])
    need = set()
    for a, b in itertools.combinations(range(len(names)), 2):
        for va in axes[names[a]]:
            for vb in axes[names[b]]:
                row = {names[a]: va, names[b]: vb}
                if valid(row):
                    need.add((a, va, b, vb))
    rows = []
    while need:
        best, bestc = None, -1
        for _ in range(60):
            cand = {n: str(rng.choice(axes[n])) for n in names}
            # seed the candidate with one uncovered pair
            a, va, b, vb = list(need)[int(rng.integers(0, len(need)))]
            cand[names[a]] = va
            cand[names[b]] = vb
            if not valid(cand):
                continue
            c = sum(1 for (a, va, b, vb) in need if cand[names[a]] == va and cand[names[b]] == vb)
            if c > bestc:
                best, bestc = cand, c
        if best is None:
            break
        rows.append(best)
        need = {(a, va, b, vb) for (a, va, b, vb) in need
                if not (best[names[a]] == va and best[names[b]] == vb)}
    if fixed:
        for r in rows:
            r.update(fixed)
    return rows


def sample(rng, axes=None, **fixed):
    axes = axes or AXES
    while True:
        c = {n: str(rng.choice(v)) for n, v in axes.items()}
        c.update(fixed)
        if valid(c):
            if c.get("active") == "Explicit":
                c["tau"] = float(rng.choice([0.1, 0.5, 1.0, 2.0]))
            return c


def scaling_weights(rng, n, m, span=6, degenerate=False):
    out = {"vw": [int(v) for v in rng.integers(-span, span + 1, size=n)],
           "cw": [int(v) for v in rng.integers(-span, span + 1, size=m)],
           "ow": int(rng.integers(-span, span + 1))}
    # (drawn from a stream of its own so that the weights themselves are the ones generated before this option existed)
    r2 = np.random.default_rng([n, m, span, abs(out["ow"]), 4711])
    out["dtype"] = str(r2.choice(["int64", "int64", "int32", "int16", "int8"]))
    # degenerate weight patterns: only the objective scaled (all row weights zero), or only objective and rows scaled
    u = r2.random() if degenerate else 1.0
    if u < 0.15 and m > 0:
        out["cw"] = [0] * m
        if out["ow"] == 0:
            out["ow"] = int(r2.choice([-1, 1])) * int(r2.integers(1, span + 1))
    elif u < 0.25:
        out["vw"] = [0] * n
    return out


def make_params(cfg, spec=None, weights=None, **extra):
    """Params for a configuration.  `weights` (dict vw/cw/ow) is required for
    scaling='custom'; automatic scalings use spec.x0 / zeros as the scaling point."""
    from pygradflow.params import (ActiveSetType, LinearSolverType, NewtonType, Params, PenaltyUpdate,
                                   ScalingType, StepControlType, StepSolverType)
    from pygradflow.scale import Scaling

    c = normalise(cfg)
    kw = dict(
        newton_type=NewtonType[c["newton"]],
        step_solver_type=StepSolverType[c["step_solver"]],
        linear_solver_type=LinearSolverType[c["linear"]],
        step_control_type=StepControlType[c["control"]],
        penalty_update=PenaltyUpdate[c["penalty"]],
        active_set_type=ActiveSetType[c["active"]],
    )
    if c["active"] == "Explicit":
        kw["active_set_tau"] = float(c["tau"])
    sc = c["scaling"]
    if sc == "custom":
        w = weights or c.get("weights")
        kw["scaling_type"] = ScalingType.Custom
        # the integer dtype in which the caller stores the weights (all of int8 / int16 / int32 / int64 are accepted)
        wdt = np.dtype(w.get("dtype", "int64"))
        if wdt.itemsize < 8 and (np.max(np.abs(w["vw"]), initial=0) > np.iinfo(wdt).max
                                 or np.max(np.abs(w["cw"]), initial=0) > np.iinfo(wdt).max):
            wdt = np.dtype("int64")
        kw["scaling"] = Scaling(np.array(w["vw"], dtype=wdt), np.array(w["cw"], dtype=wdt), int(w["ow"]))
    elif sc != "none":
        kw["scaling_type"] = ScalingType[sc]
        x0 = spec.x0 if (spec is not None and spec.x0 is not None) else np.zeros(spec.n)
        kw["scaling_primal"] = np.array(x0, dtype=float, copy=True)
        kw["scaling_dual"] = (np.array(spec.y0, dtype=float, copy=True) if spec.y0 is not None
                              else np.zeros(spec.m))
    import dataclasses

    from pygradflow.params import Params as _P

    plain = {f.name for f in dataclasses.fields(_P)} - {
        "newton_type", "step_solver_type", "linear_solver_type", "step_control_type", "penalty_update",
        "active_set_type", "active_set_tau", "scaling_type", "scaling", "scaling_primal", "scaling_dual",
        "precision", "active_set_method", "step_solver"}
    for k in plain:
        if k in c:
            kw[k] = c[k]
    if c.get("active_set_method") == "half" and c["active"] != "Explicit":
        # user-supplied rule for the active-set estimate (called as method(iterate, lamb, rho))
        kw["active_set_method"] = lambda iterate, lamb, rho: 0.5 / lamb
    if c.get("step_solver_callable"):
        import pygradflow.step.solver as SS

        kw["step_solver"] = {"Standard": SS.StandardStepSolver, "Extended": SS.ExtendedStepSolver,
                             "Symmetric": SS.SymmetricStepSolver, "Asymmetric": SS.AsymmetricStepSolver}[c["step_solver"]]
    kw.update(extra)
    return Params(**kw)


def ref_weights(params, n, m):
    """Weights actually used by a constructed Transformation/Params -> ref.Weights"""
    from .ref import Weights

    sc = params if hasattr(params, "var_weights") else None
    if sc is None:
        return Weights.zero(n, m)
    return Weights(np.asarray(sc.var_weights), np.asarray(sc.cons_weights), int(sc.obj_weight))


def rare_params(rng, allow_unvalidated=True):
    """A random subset of the rarely touched numerical parameters (JSON data)."""
    out = {}
    if rng.random() < 0.4:
        out["lamb_min"] = float(10.0 ** rng.uniform(-12, -2))
    if rng.random() < 0.4:
        out["lamb_red"] = float(rng.uniform(0.1, 0.9))
    if rng.random() < 0.4:
        out["lamb_inc"] = float(rng.uniform(1.5, 10.0))
    if rng.random() < 0.4:
        out["theta_max"] = float(rng.uniform(0.5, 0.99))
        out["theta_ref"] = float(rng.uniform(0.1, out["theta_max"]))
    if rng.random() < 0.3:
        out["K_P"] = float(rng.uniform(0.0, 1.0))
        out["K_I"] = float(rng.uniform(0.0, 0.1))
    if rng.random() < 0.3:
        out["opt_tol"] = float(rng.choice([1e-4, 1e-6, 1e-8]))
    if rng.random() < 0.3:
        out["newton_tol"] = float(rng.choice([1e-6, 1e-8, 1e-10]))
    if rng.random() < 0.2:
        out["active_tol"] = float(rng.choice([1e-8, 1e-6]))
    if rng.random() < 0.2:
        out["local_infeas_tol"] = float(rng.choice([1e-8, 1e-6, 0.0]))
    if allow_unvalidated and rng.random() < 0.2:
        out["validate_input"] = False
    if rng.random() < 0.15:
        out["active_set_method"] = "half"
    if rng.random() < 0.15:
        out["step_solver_callable"] = True
    return out
