"""C07 -- failures at trial points are survived and never accepted.

Fault enumeration.  For every base run (spec, configuration) a fault-free reference
run counts the evaluations of each problem component and the factorisations / solves
of the linear solver; then *every* position is failed in turn (transient non-finite
value / LinearSolverError), plus region-persistent failures (every evaluation outside a
ball around the start is non-finite).  A trace monitor checks what the property states.
"""
import numpy as np

from .. import boot  # noqa: F401
from .. import cfg as C
from .. import mon, work
from .. import ref as R
from ..gen import rng_for

LEVEL = "fault_enumeration"
CASE_TIMEOUT = {"quick": 240, "thorough": 480}
SHARDS_PER_JOB = 8
FAMS = ["QP", "NLP", "NLP", "DEG", "NCVX"]
MAX_POSITIONS = 260
OK_STATUS = {"Optimal", "IterationLimit", "TimeLimit", "Unbounded", "LocallyInfeasible"}


def gen_cases(tier, seed):
    rng = rng_for("C07cases", seed)
    cases = []
    nbase = 64 if tier == "quick" else 1100
    k = 0
    combos = [(ss, ct, ls) for ss in C.STEP_SOLVER for ct in C.CONTROL for ls in ("LU", "GMRES")]
    for i in range(nbase):
        ss, ct, ls = combos[i % len(combos)]
        fam = FAMS[int(rng.integers(0, len(FAMS)))]
        cfgd = {"step_solver": ss, "control": ct, "linear": ls,
                "newton": str(rng.choice(C.NEWTON)), "penalty": str(rng.choice(["DualNorm", "Constant", "ObjectiveFilter"])),
                "active": str(rng.choice(["Standard", "Standard", "LargestActiveSet"])),
                "scaling": str(rng.choice(["none", "none", "custom"])),
                "iteration_limit": int(rng.choice([6, 10])), "rho": float(10.0 ** rng.uniform(-4, 0))}
        if ls == "GMRES" and ss == "Symmetric" and rng.random() < 0.5:
            cfgd["linear"] = "MINRES"
        case = work.mk_case(fam, [seed, k], cfgd, gopts=({"n": int(rng.integers(1, 6))} if fam in ("QP", "NLP") else {}))
        case["y0"] = "rand" if rng.random() < 0.4 else "none"
        if rng.random() < 0.2:
            case["x0_out"] = True    # start outside the variable bounds
        case["mode"] = "enumerate"
        cases.append(case)
        k += 1
    nreg = 60 if tier == "quick" else 1500
    for i in range(nreg):
        cfgd = C.sample(rng, {"step_solver": C.STEP_SOLVER, "control": C.CONTROL, "newton": C.NEWTON,
                              "linear": ["LU", "GMRES"], "penalty": ["DualNorm", "Constant"]})
        cfgd["iteration_limit"] = 60
        cfgd["scaling"] = "none"
        case = work.mk_case(str(rng.choice(["QP", "NLP"])), [seed, k], cfgd)
        case["mode"] = "region"
        case["radius"] = float(rng.uniform(0.2, 2.5))
        case["shape"] = str(rng.choice(["ball", "halfspace"]))
        # a third of the region runs display every row: reporting evaluates the problem at rejected points
        case["display"] = bool(rng.random() < 0.35)
        if case["display"]:
            cfgd["lamb_init"] = float(10.0 ** rng.uniform(-3, 0))
            if rng.random() < 0.6:
                case["components"] = ["obj"]   # only the objective value fails (finite derivatives)
        cases.append(case)
        k += 1
    return cases


def quiet_clock():
    # display never fires (a displayed row evaluates the objective at rejected points for reporting only)
    return mon.VirtualClock(display_bits=[0], display_interval=0.1)


def user_x(solver, spec, xi):
    sc = solver.transform.scaling
    x = np.asarray(xi[: spec.n], dtype=float)
    return x if sc is None else np.ldexp(x, -np.asarray(sc.var_weights))


def judge(case, p, out, fired_evals, fired_lin, pred=None, check_discard=True):
    """Checks (a)-(e) of DESIGN C07 for one faulted run; returns violations and stats."""
    viol = []
    key = work.cfg_key(case["cfg"], "step_solver", "control", "linear", "newton")
    key["family"] = case["fam"]
    st = {"recoveries": 0}
    spec = p.spec
    x0 = work.x0_array(p)

    def bad(kind, what, **kw):
        viol.append({"what": what, "key": dict(key, kind=kind, **kw)})

    if out.construct_exc is not None:
        bad("construct", "constructing the solver raised %s" % type(out.construct_exc).__name__)
        return viol, st
    T = out.trace.trials
    at_start = any(np.array_equal(f[2], x0) for f in fired_evals)
    pre_loop = any(f[3] is None or f[3] < 0 for f in fired_evals)
    # (a) outcome
    if out.result is not None:
        r = out.result
        if r.status.name not in OK_STATUS:
            bad("status", "unknown status")
        for nm in ("x", "y", "d"):
            if not np.all(np.isfinite(np.asarray(getattr(r, nm), dtype=float))):
                bad("non-finite-result", "returned %s is not finite" % nm)
        if r.status.name == "Optimal":
            w = work.weights_of(out.solver, spec)
            fails = R.kkt_check(p.P, w, r.x, r.y, r.d, p.params.opt_tol, p.params.active_tol)
            st["optimal_despite_fault"] = 1
            if fails:
                bad("kkt", "Optimal result obtained despite the failure violates the optimality conditions: " + fails[0])
    else:
        if out.kind == "lamb_max":
            pass
        elif out.kind == "line_search":
            st["line_search_failures"] = 1  # deliberate failure of the globalized Newton method
        elif out.kind == "initial" and (at_start or pre_loop):
            st["initial_point_errors"] = 1
        else:
            exc_site = "%s@%s" % (type(out.exc).__name__, out.site)
            where = "start" if (at_start or pre_loop) else "trial"
            bad("escaped", "failure at a %s point escaped solve() as %s: %s"
                % (where, exc_site, str(out.exc)[:80]), exc=type(out.exc).__name__, site=out.site, where=where)
    # (d) the trial in which a fault fired was discarded
    trials_hit = set()
    for f in fired_evals:
        if f[3] is not None and f[3] >= 0:
            trials_hit.add(f[3])
    for f in fired_lin:
        if f[2] is not None and f[2] >= 0:
            trials_hit.add(f[2])
    for i in sorted(trials_hit if check_discard else []):
        if i >= len(T):
            continue
        t = T[i]
        if "accepted" not in t:
            continue  # exception left compute_step: judged under (a)
        if t["accepted"] or not t["same"]:
            bad("fault-not-discarded", "the trial in which the failure occurred was %s"
                % ("accepted" if t["accepted"] else "returned with a different iterate"))
        elif not t["lamb"] > 1.0 / t["dt"]:
            bad("no-shrink", "step size not reduced after the failed trial")
        else:
            st["recoveries"] += 1
    # (c) failing trial points never become iterates
    bad_pts = []
    for f in fired_evals:
        xf, ti = f[2], f[3]
        if ti is None or ti < 0 or ti >= len(T):
            continue
        cur = user_x(out.solver, spec, T[ti]["x"])
        if np.array_equal(cur, xf):
            continue  # evaluation at the current (already accepted) iterate
        bad_pts.append((xf, ti))
    if pred is not None:
        pts = [user_x(out.solver, spec, t["x"]) for t in T]
        if out.result is not None:
            pts.append(np.asarray(out.result.x))
        st["iterates_checked_against_region"] = len(pts)
        for q in pts:
            if pred(q):
                bad("faulted-point-adopted", "an iterate lies inside the region where every evaluation fails")
                break
    else:
        # transient failures: the failing trial point must not be what the solve continues from (or
        # returns) right after the failed attempt.  A later, separately computed and successfully
        # evaluated trial may coincide with it by value (clipping to box corners) -- that is a new attempt.
        for xf, ti in bad_pts[:20]:
            nxt = []
            if ti + 1 < len(T):
                nxt.append(user_x(out.solver, spec, T[ti + 1]["x"]))
            elif out.result is not None:
                nxt.append(np.asarray(out.result.x))
            if any(np.array_equal(q, xf) for q in nxt):
                bad("faulted-point-adopted", "the solve continued from / returned the point at which the failure occurred")
                break
    st["trial_point_faults"] = len(bad_pts)
    return viol, st


def run_case(case):
    res = {"viol": [], "ctr": {}, "sets": {}}
    ctr = res["ctr"]

    def bump(k, v=1):
        ctr[k] = ctr.get(k, 0) + v

    if case["mode"] == "region":
        p0 = work.prepare(case, record_sites=False, keep_args=False)
        x0 = work.x0_array(p0)
        rad = case["radius"]
        if case["shape"] == "ball":
            pred = lambda x, x0=x0, r=rad: float(np.linalg.norm(x - x0)) > r  # noqa: E731
        else:
            rng = rng_for("C07dir", *case["gseed"])
            a = rng.normal(size=p0.spec.n)
            a /= np.linalg.norm(a)
            pred = lambda x, x0=x0, r=rad, a=a: float(a @ (x - x0)) > r  # noqa: E731
        fault = mon.Fault(pred=pred, components=case.get("components", ["obj", "obj_grad", "cons", "cons_jac"]))
        p = work.prepare(case, fault=fault, record_sites=False, keep_args=False)
        if case.get("display"):
            # every row displayed: evaluations made for reporting may hit the failing region; those are not
            # step failures, so clause (d) is not applied -- outcome, finiteness and "no iterate inside the
            # failing region" are
            p.params.display_interval = 0.0
            out = mon.run_solve(p.rec, p.params, p.x0, p.y0, clock=mon.VirtualClock(display_bits=[1], display_interval=0.0))
            viol, st = judge(case, p, out, fault.fired, [], pred=pred, check_discard=False)
            bump("region_runs_with_display")
            bump("region_display_faults_fired", len(fault.fired))
        else:
            out = mon.run_solve(p.rec, p.params, p.x0, p.y0, clock=quiet_clock())
            viol, st = judge(case, p, out, fault.fired, [], pred=pred)
        res["viol"] = viol[:3]
        bump("region_runs")
        bump("region_faults_fired", len(fault.fired))
        bump("recoveries", st["recoveries"])
        bump("region_iterates_checked", st.get("iterates_checked_against_region", 0))
        bump("outcome_" + work.outcome_class(out).split("@")[0])
        res["evals"] = 1
        if fault.fired:
            res["nt_keys"] = ["region-%s" % "-".join(map(str, case["gseed"]))]
        return res

    # ---- enumeration of all fault positions of one base run
    pref = work.prepare(case, record_sites=False, keep_args=True)
    ref = mon.run_solve(pref.rec, pref.params, pref.x0, pref.y0, clock=quiet_clock(), lin_record=False,
                        lin_fail=("none", -1))
    if ref.construct_exc is not None or (ref.exc is not None and ref.kind == "crash"):
        bump("base_runs_unusable")
        return res
    counts = dict(pref.rec.counts)
    nfac, nsol = ref.factory.n_factor, ref.factory.n_solve
    positions = [("eval", c, k) for c in mon.COMPONENTS for k in range(counts[c])]
    positions += [("factor", None, k) for k in range(nfac)] + [("solve", None, k) for k in range(nsol)]
    # a linear solver that does not report its failure but returns a vector containing NaN (every third solve)
    positions += [("nan", None, k) for k in range(0, nsol, 3)]
    # ... or a solution in which one component is infinite (every third solve, shifted)
    positions += [("inf", None, k) for k in range(1, nsol, 3)]
    bump("base_runs")
    bump("base_runs_out_of_bounds_start", int(bool(case.get("x0_out"))))
    bump("positions_in_reference_runs", len(positions))
    if len(positions) > MAX_POSITIONS:
        # keep the enumeration complete per kind up to the cap; count what is dropped
        rng = rng_for("C07cap", *case["gseed"])
        idx = sorted(rng.choice(len(positions), size=MAX_POSITIONS, replace=False))
        bump("positions_dropped_by_cap", len(positions) - MAX_POSITIONS)
        positions = [positions[i] for i in idx]
        exhaustive = False
    else:
        exhaustive = True
    bump("base_runs_exhaustive", int(exhaustive))
    nt = 0
    ev = 1
    for kind, comp, k in positions:
        fault = mon.Fault(comp, k) if kind == "eval" else None
        lin = (kind, k) if kind != "eval" else None
        p = work.prepare(case, fault=fault, record_sites=False, keep_args=False)
        out = mon.run_solve(p.rec, p.params, p.x0, p.y0, clock=quiet_clock(), lin_fail=lin)
        ev += 1
        fe = fault.fired if fault else []
        fl = out.factory.fired if (out.factory and lin) else []
        bump("positions_enumerated")
        if not fe and not fl:
            bump("positions_not_reached")
            res["inconclusive"] = ("fault position %s/%s/%d of the reference run was not reached (injector bypassed?)"
                                   % (kind, comp, k))
            continue
        bump("positions_hit_%s" % (comp if kind == "eval" else kind))
        # (a silently non-finite solution is only a failure of the trial if a used part of it is non-finite: components
        # of active variables are overwritten by the step solvers, so "discarded" is not demanded for these positions)
        viol, st = judge(case, p, out, fe, fl, check_discard=(kind not in ("nan", "inf")))
        if kind == "inf":
            # the infinite component may belong to an active variable, whose solution component the step solvers
            # overwrite: the attempt is then legitimately unaffected.  Either way: an attempt that was not discarded
            # must be exactly the attempt of the fault-free run -- garbage must not have shaped it
            Tf, Tr = out.trace.trials, ref.trace.trials
            for f in fl:
                t = f[2]
                if t is None or t < 0 or t >= len(Tf) or "accepted" not in Tf[t]:
                    continue
                bump("infinite_component_attempts_judged")
                if Tf[t]["accepted"] and not Tf[t]["same"]:
                    if t >= len(Tr) or not work.same_trial(Tf[t], Tr[t]):
                        viol.append({"what": "an attempt whose linear solve returned an infinite component was accepted "
                                             "with another result than in the fault-free run (trial %d)" % t,
                                     "key": dict(work.cfg_key(case["cfg"], "step_solver", "control", "linear", "newton"),
                                                 family=case["fam"], kind="infinite-component-accepted")})
        for v in viol:
            v.setdefault("detail", {})["position"] = [kind, comp, k]
        res["viol"] += viol
        bump("recoveries", st["recoveries"])
        bump("trial_point_faults", st.get("trial_point_faults", 0))
        bump("optimal_despite_fault", st.get("optimal_despite_fault", 0))
        bump("initial_point_errors", st.get("initial_point_errors", 0))
        bump("outcome_" + work.outcome_class(out).split("@")[0])
        bump("recoveries_%s" % p.cfg["step_solver"], st["recoveries"])
        nt += 1
    res["viol"] = res["viol"][:6]
    res["evals"] = ev
    res["nt_n"] = nt
    if case["gseed"][-1] % 16 == 0:
        res["sample"] = {"spec": pref.spec.summary(), "cfg": case["cfg"], "evaluations_in_reference_run": counts,
                         "factorisations": nfac, "solves": nsol, "positions_enumerated": len(positions),
                         "exhaustive": exhaustive, "reference_outcome": work.outcome_class(ref)}
    return res


def finalize(agg, tier):
    c = agg["ctr"]
    return {
        "rule": "base runs: small QP/NLP/degenerate/nonconvex specs x all 4 step solvers x all 4 step controllers x "
                "LU/GMRES(/MINRES) x random Newton type, penalty, active-set rule, scaling none/custom, 6-10 iterations; for "
                "each base run every evaluation index of obj/obj_grad/cons/cons_jac/lag_hess and every factorisation and "
                "solve index of the fault-free reference run is failed once (transient), every third solve additionally returns a vector containing NaN without raising, another third a solution with one infinite component; region runs: every evaluation "
                "outside a ball / half-space around the start fails; a position is non-trivial when the injected failure "
                "actually fired; positions are distinct by construction",
        "floors": {"base_runs": 30, "positions_enumerated": 2000, "recoveries": 1000, "positions_hit_factor": 100,
                   "positions_hit_solve": 100, "positions_hit_nan": 40, "positions_hit_inf": 40, "infinite_component_attempts_judged": 30, "positions_hit_lag_hess": 100, "positions_hit_cons": 100,
                   "region_faults_fired": 100, "recoveries_Standard": 50, "recoveries_Extended": 50,
                   "recoveries_Symmetric": 50, "recoveries_Asymmetric": 50, "initial_point_errors": 30,
                   "region_display_faults_fired": 30},
        "exhaustive": c.get("positions_dropped_by_cap", 0) == 0,
        "extra": {"exhaustive_per_base_run": "%d of %d base runs enumerated completely"
                                             % (c.get("base_runs_exhaustive", 0), c.get("base_runs", 0))},
        "assumptions": ["display is switched off through the virtual clock (a displayed row evaluates the objective at "
                        "rejected points for reporting only) and report_rcond is off (its solves are advisory)",
                        "scaling none/custom only: automatic scalings evaluate the problem while the solver is constructed"],
    }
