"""C13 -- residuals and augmented-Lagrangian derivatives match their definitions.

`Iterate`, `ImplicitFunc`, `ScaledImplicitFunc` and `util.keep_rows` of the real code are
evaluated on the transformed problem of a generated spec and compared with the dense
reference model at the same inputs.  Tolerance: 1e-12 times the sum of the absolute
values of all terms of the quantity (summation-order rounding only); boolean and
structural outputs are compared exactly.
"""
import warnings

import numpy as np
import scipy.sparse as sps

from .. import boot  # noqa: F401
from .. import cfg as C
from .. import ref as R
from .. import work
from ..gen import SpecProblem, make_spec, rng_for

LEVEL = "exploration"
BATCH = 25
REL = 1e-12


def gen_cases(tier, seed):
    nb = 160 if tier == "quick" else 8000
    return [{"seed": [seed, i], "count": BATCH} for i in range(nb)]


def near(got, ref, mag):
    got = np.asarray(got, dtype=float)
    ref = np.asarray(ref, dtype=float)
    if got.shape != ref.shape:
        return False, None
    err = np.abs(got - ref)
    lim = REL * np.asarray(mag, dtype=float) + 1e-300
    ok = bool(np.all(err <= lim))
    worst = float(np.max(err / lim)) if err.size else 0.0
    return ok, worst


def gen_point(rng, D):
    n = D.n
    x = np.zeros(n)
    for j in range(n):
        l, u = D.lb[j], D.ub[j]
        lo = l if np.isfinite(l) else (u - 3.0 if np.isfinite(u) else -2.0)
        hi = u if np.isfinite(u) else (l + 3.0 if np.isfinite(l) else 2.0)
        mode = int(rng.integers(0, 8))
        if mode == 0 and np.isfinite(l):
            x[j] = l
        elif mode == 1 and np.isfinite(u):
            x[j] = u
        elif mode == 2 and np.isfinite(l):
            x[j] = l + rng.choice([-1.0, 1.0]) * 1e-9
        elif mode == 3 and np.isfinite(u):
            x[j] = u + rng.choice([-1.0, 1.0]) * 1e-9
        elif mode == 4:
            x[j] = lo - abs(rng.normal())
        elif mode == 5:
            x[j] = hi + abs(rng.normal())
        else:
            x[j] = rng.uniform(lo, hi) if hi > lo else lo
    return x


def run_case(case):
    from pygradflow.implicit_func import ImplicitFunc, ScaledImplicitFunc
    from pygradflow.iterate import Iterate
    from pygradflow.transform import Transformation
    from pygradflow.util import keep_rows

    warnings.simplefilter("ignore")
    rng = rng_for("C13", *case["seed"])
    viol, keys, ctr = [], [], {}
    worst_ratio = {}
    sample = None

    def bump(k, v=1):
        ctr[k] = ctr.get(k, 0) + v

    for k in range(case["count"]):
        try:
            fam = str(rng.choice(["NLP", "NLP", "NLP", "QP", "DEG", "INF", "F32QP", "INTQP"]))
            gseed = case["seed"] + [k]
            spec = make_spec(fam, gseed)
            exact_feas = bool(spec.m and rng.random() < 0.2)
            if exact_feas:
                # homogeneous rows: at the origin (slacks at 0) every internal constraint value is exactly 0.0, so
                # that y + rho*c(x) is the same vector for every rho
                spec.e = np.zeros(spec.m)
                eq = spec.cons_lb == spec.cons_ub
                spec.cons_lb[eq] = 0.0
                spec.cons_ub[eq] = 0.0
            sc = str(rng.choice(["none", "none", "custom"]))
            weights = C.scaling_weights(rng, spec.n, spec.m, span=4) if sc == "custom" else None
            fmt = str(rng.choice(["coo", "csr", "csc"]))
            prob = SpecProblem(spec, fmt=fmt)
            params = C.make_params({"scaling": sc}, spec, weights=weights)
            T = Transformation(prob, params)
            tp = T.trans_problem
            w = (R.Weights(weights["vw"], weights["cw"], weights["ow"]) if weights else R.Weights.zero(spec.n, spec.m))
            D = R.internal_dense(R.user_dense(spec), w)
            n, m = D.n, D.m
            x = gen_point(rng, D)
            if exact_feas:
                x = np.zeros(D.n)
                bump("points_with_exactly_zero_constraints", int(not np.any(D.c(x))))
            y = rng.normal(size=m) * 10.0 ** rng.uniform(-2, 2)
            rho = float(10.0 ** rng.uniform(-8, 2))
            dt = float(10.0 ** rng.uniform(-6, 3))
            xh = gen_point(rng, D)
            xh = np.minimum(np.maximum(xh, D.lb), D.ub)
            yh = rng.normal(size=m)
            atol = params.active_tol
            if m:
                bump("jacobian_dtype_%s" % prob.cons_jac(np.array(spec.x0, dtype=float)).dtype)
            bump("sparse_array_callbacks", int(fmt.endswith("a")))
            it = Iterate(tp, params, x, y, T.evaluator)
            ith = Iterate(tp, params, xh, yh, T.evaluator)
            key = {"family": fam, "scaling": sc}

            def bad(q, what, detail=None):
                kk = dict(key)
                kk["quantity"] = q
                viol.append({"what": "%s: %s" % (q, what), "key": kk,
                             "detail": dict(detail or {}, fam=fam, gseed=gseed, rho=rho, dt=dt, x=x, y=y)})

            def cmp(q, got, ref, mag):
                bump("compared_" + q)
                ok, worst = near(got, ref, mag)
                if worst is not None and np.isfinite(worst):
                    worst_ratio[q] = max(worst_ratio.get(q, 0.0), worst)
                if not ok:
                    bad(q, "differs from the reference definition (error / allowance = %s)" % worst,
                        {"got": np.asarray(got), "ref": np.asarray(ref)})
                return ok

            # magnitudes
            ca = D.cabs(x)
            fa = D.fabs(x)
            ga = D.gabs(x)
            Ja = D.Jabs(x)
            ya = np.abs(y)
            c = D.c(x)
            mag_dx = ga + Ja.T.dot(rho * ca + ya)
            cmp("cons", it.cons, c, ca)
            cmp("obj", it.obj, D.f(x), fa)
            cmp("obj_grad", it.obj_grad, D.g(x), ga)
            cmp("cons_jac", it.cons_jac.toarray(), D.J(x), Ja)
            cmp("aug_lag", it.aug_lag(rho), R.aug_lag(D, x, y, rho), fa + 0.5 * rho * ca.dot(ca) + ca.dot(ya))
            cmp("aug_lag_deriv_x", it.aug_lag_deriv_x(rho), R.aug_lag_dx(D, x, y, rho), mag_dx)
            cmp("aug_lag_deriv_y", it.aug_lag_deriv_y(), c, ca)
            cmp("aug_lag_deriv_xy", it.aug_lag_deriv_xy().toarray(), D.J(x), Ja)
            Hmag = D.Habs(x, ya + rho * ca) + rho * Ja.T.dot(Ja)
            Hxx = it.aug_lag_deriv_xx(rho)
            cmp("aug_lag_deriv_xx", Hxx.toarray() if sps.issparse(Hxx) else np.asarray(Hxx),
                R.aug_lag_dxx(D, x, y, rho), Hmag)
            mag_r = ga + Ja.T.dot(ya)
            cmp("bounds_dual", it.bounds_dual, R.bounds_dual(D, x, y, atol), mag_r)
            cmp("stat_res", it.stat_res, R.stat_res(D, x, y, atol), float(np.max(mag_r)) if n else 0.0)
            cmp("bound_violation", it.bound_violation, R.bound_violation(D, x), float(np.max(np.abs(x))) + 1.0)
            cmp("cons_violation", it.cons_violation, R.cons_violation(D, x), float(np.max(ca)) if m else 0.0)
            cmp("total_res", it.total_res, R.total_res(D, x, y, atol),
                max(float(np.max(mag_r)) if n else 0.0, float(np.max(ca)) if m else 0.0, float(np.max(np.abs(x))) + 1.0))
            # boolean predicates (skip when the reference value sits within rounding of a threshold)
            ftol = float(10.0 ** rng.uniform(-8, 1))
            ltol = float(10.0 ** rng.uniform(-8, 1))
            cv = R.cons_violation(D, x)
            bv = R.bound_violation(D, x)
            inf_res, _ = R.infeas_stationarity(D, x, atol)
            # note: fixed variables are not projected by the repository's test; mirror the definition used there
            lo, up, both = R.active_flags(D, x, atol)
            rr = D.J(x).T.dot(c)
            rr = np.array(rr, copy=True)
            rr[lo] = np.minimum(rr[lo], 0.0)
            rr[up] = np.maximum(rr[up], 0.0)
            inf_res = float(np.max(np.abs(rr))) if n else 0.0
            c2 = float(np.linalg.norm(c)) if m else 0.0
            if m >= 2 and cv > 0 and c2 > 1.05 * cv and rng.random() < 0.4:
                # tolerances placed so that the largest row violation is within the tolerance while the Euclidean norm of
                # the violations is not, at a point that counts as stationary for the violation measure
                ftol = float(cv * (1.0 + rng.uniform(0.1, 0.9) * (c2 / cv - 1.0)))
                ltol = float(2.0 * inf_res + 1e-300)
                bump("feasibility_tolerance_between_max_and_euclidean_norm")
            margin = 1e-9
            if abs(cv - ftol) > margin * (ftol + cv) and abs(inf_res - ltol) > margin * (ltol + inf_res):
                exp = (cv > ftol) and (inf_res <= ltol)
                bump("compared_locally_infeasible")
                bump("locally_infeasible_true", int(exp))
                if bool(it.locally_infeasible(ftol, ltol)) != exp:
                    bad("locally_infeasible", "returned %s, definition gives %s (violation %.3e vs %.3e, projected "
                        "gradient %.3e vs %.3e)" % (not exp, exp, cv, ftol, inf_res, ltol))
            if abs(cv - ftol) > margin * (ftol + cv) and abs(bv - ftol) > margin * (ftol + bv):
                exp = (cv <= ftol) and (bv <= ftol)
                bump("compared_is_feasible")
                if bool(it.is_feasible(ftol)) != exp:
                    bad("is_feasible", "returned %s, definition gives %s" % (not exp, exp))

            # ---- implicit function
            func = ImplicitFunc(tp, ith, dt)
            sfunc = ScaledImplicitFunc(tp, ith, dt)
            lam = 1.0 / dt
            finite_lb = np.where(np.isfinite(D.lb), np.abs(D.lb), 0.0)
            finite_ub = np.where(np.isfinite(D.ub), np.abs(D.ub), 0.0)
            p = R.proj_point(D, xh, x, y, rho, dt)
            pmag = np.abs(xh) + dt * mag_dx
            amb = (np.abs(p - (D.lb - 1e-8)) <= 1e-10 * (pmag + 1.0)) | (np.abs(p - (D.ub + 1e-8)) <= 1e-10 * (pmag + 1.0))
            act_ref = R.active_set(D, p)
            cmp("projection_initial", func.projection_initial(it, rho), p, pmag)
            if not amb.any():
                act_got = func.compute_active_set(it, rho)
                bump("compared_active_set")
                bump("active_set_nonempty", int(act_ref.any()))
                if act_got.dtype != bool or not np.array_equal(act_got, act_ref):
                    bad("compute_active_set", "active set %s differs from definition %s" % (act_got, act_ref))
                Fref, _ = R.implicit_F(D, xh, yh, x, y, rho, dt)
                Fmag = np.concatenate([np.abs(x) + pmag + (finite_lb + finite_ub) * act_ref,
                                       ya + np.abs(yh) + dt * ca])
                cmp("value_at", func.value_at(it, rho), Fref, Fmag)
            # tau variant of the active-set rule
            tau = float(10.0 ** rng.uniform(-3, 1))
            ptau = R.proj_point(D, xh, x, y, rho, dt, tau)
            ptmag = (abs(1.0 - tau * lam) * np.abs(x) + tau * lam * np.abs(xh) + tau * mag_dx)
            cmp("projection_initial_tau", func.projection_initial(it, rho, tau), ptau, ptmag)
            ambt = (np.abs(ptau - (D.lb - 1e-8)) <= 1e-10 * (ptmag + 1.0)) | (np.abs(ptau - (D.ub + 1e-8)) <= 1e-10 * (ptmag + 1.0))
            if not ambt.any():
                bump("compared_active_set_tau")
                if not np.array_equal(func.compute_active_set(it, rho, tau), R.active_set(D, ptau)):
                    bad("compute_active_set(tau)", "active set differs from definition for tau=%r" % tau)
            # given (random) active set
            act = rng.random(size=n) < 0.4
            Fref, _ = R.implicit_F(D, xh, yh, x, y, rho, dt, act)
            finite_lb = np.where(np.isfinite(D.lb), np.abs(D.lb), 0.0)
            finite_ub = np.where(np.isfinite(D.ub), np.abs(D.ub), 0.0)
            Fmag = np.concatenate([np.abs(x) + pmag + (finite_lb + finite_ub) * act, ya + np.abs(yh) + dt * ca])
            cmp("value_at(active_set)", func.value_at(it, rho, act), Fref, Fmag)
            proj = func.project(np.copy(p), act)
            bump("compared_project")
            if not (np.all(proj[act] >= D.lb[act]) and np.all(proj[act] <= D.ub[act])):
                bad("project", "projected components outside the box")
            if not np.array_equal(proj[~act], p[~act]):
                bad("project", "inactive components were changed by the projection")
            exp_proj = np.array(p, copy=True)
            exp_proj[act] = np.minimum(np.maximum(p[act], D.lb[act]), D.ub[act])
            if not np.array_equal(proj, exp_proj):
                bad("project", "projection differs from clip on the active components")
            dF = func.deriv(it.aug_lag_deriv_xy(), it.aug_lag_deriv_xx(rho), act)
            dFref = R.implicit_dF(D, x, y, rho, dt, act)
            dmag = np.block([[np.eye(n) + dt * Hmag, dt * Ja.T], [dt * Ja, np.eye(m)]])
            cmp("deriv", dF.toarray(), dFref, dmag)
            # structural: identity rows on the active set
            dFa = dF.toarray()
            for j in np.where(act)[0]:
                row = np.zeros(n + m)
                row[j] = 1.0
                if not np.array_equal(dFa[j], row):
                    bad("deriv", "row %d of the generalised Jacobian is not an identity row for an active component" % j)
                    break
            cmp("deriv_at", func.deriv_at(it, rho, act).toarray(), dFref, dmag)
            # the same iterate object asked again under other penalties (one iterate serves a whole sequence of
            # penalty values and step attempts)
            for rho2 in (rho * 10.0, rho * 0.03):
                Hmag2 = D.Habs(x, ya + rho2 * ca) + rho2 * Ja.T.dot(Ja)
                H2 = it.aug_lag_deriv_xx(rho2)
                cmp("aug_lag_deriv_xx(other rho)", H2.toarray() if sps.issparse(H2) else np.asarray(H2),
                    R.aug_lag_dxx(D, x, y, rho2), Hmag2)
                dmag2 = np.block([[np.eye(n) + dt * Hmag2, dt * Ja.T], [dt * Ja, np.eye(m)]])
                cmp("deriv_at(other rho)", func.deriv_at(it, rho2, act).toarray(), R.implicit_dF(D, x, y, rho2, dt, act), dmag2)
                cmp("aug_lag_deriv_x(other rho)", it.aug_lag_deriv_x(rho2), R.aug_lag_dx(D, x, y, rho2),
                    ga + Ja.T.dot(rho2 * ca + ya))
            # scaled function
            sF, _ = R.scaled_F(D, xh, yh, x, y, rho, dt, act)
            sFmag = np.concatenate([lam * np.abs(x) + lam * np.abs(xh) + mag_dx + lam * (finite_lb + finite_ub) * act,
                                    lam * ya + lam * np.abs(yh) + ca])
            cmp("scaled_value_at", sfunc.value_at(it, rho, act), sF, sFmag)
            sdF = sfunc.deriv(it.aug_lag_deriv_xy(), it.aug_lag_deriv_xx(rho), act).toarray()
            sdmag = np.block([[lam * np.eye(n) + Hmag, Ja.T], [Ja, lam * np.eye(m)]])
            cmp("scaled_deriv", sdF, R.scaled_dF(D, x, y, rho, dt, act), sdmag)
            # keep_rows
            M = rng.normal(size=(n, n + 1)) * (rng.random(size=(n, n + 1)) < 0.6)
            filt = rng.random(size=n) < 0.6
            kr = keep_rows({"coo": sps.coo_matrix, "csr": sps.csr_matrix, "csc": sps.csc_matrix, "cooa": sps.coo_array,
                                "csra": sps.csr_array, "csca": sps.csc_array}[fmt](M), filt)
            bump("compared_keep_rows")
            if kr.shape != M.shape or not np.array_equal(kr.toarray(), M * filt[:, None]):
                bad("keep_rows", "result differs from zeroing the filtered rows")
            keys.append("%s-%s-%s" % (fam, "-".join(map(str, gseed)), sc))
            if sample is None and n <= 3 and m >= 1:
                sample = {"spec": spec.summary(), "scaling": sc, "x": x, "y": y, "rho": rho, "dt": dt,
                          "active_set_given": act, "aug_lag": R.aug_lag(D, x, y, rho),
                          "stat_res": R.stat_res(D, x, y, atol)}
            if len(viol) > 8:
                break
        except Exception as ex:
            # an exception coming out of the repository code is an observation, one of the harness is not
            if not work.raised_in_repo(ex):
                raise
            viol.append({"what": "evaluation raised %s: %s (%s)" % (type(ex).__name__, str(ex)[:100], work.repo_frame(ex)),
                         "key": {"quantity": "exception", "exc": type(ex).__name__, "where": work.repo_frame(ex)},
                         "detail": {"case": case["seed"] + [k]}})
    out = {"viol": viol[:6], "evals": case["count"], "nt_keys": keys, "ctr": ctr,
           "maxes": {"error_over_allowance_" + q: v for q, v in worst_ratio.items()}}
    if sample:
        out["sample"] = sample
    return out


def finalize(agg, tier):
    return {
        "rule": "generated NLP/QP/degenerate/infeasible specs and QPs whose matrices are handed over as float32 / integer / bool sparse matrices (optionally with custom power-of-two scaling) x points with "
                "components inside, on, within +-1e-9 of and outside the bounds x random multipliers (1e-2..1e2), "
                "rho in 1e-8..1e2 (and the same iterate object asked again under 10 rho and 0.03 rho; a fifth of the cases at a point where every internal constraint value is exactly 0.0), dt in 1e-6..1e3, computed and random active sets, tau in 1e-3..10; non-trivial = all "
                "quantities of the case were compared; distinct by (spec seed, scaling)",
        "floors": {"compared_aug_lag_deriv_xx": 1000, "compared_value_at": 500, "compared_deriv": 1000,
                   "compared_active_set": 500, "active_set_nonempty": 200, "compared_locally_infeasible": 500,
                   "compared_keep_rows": 1000, "compared_scaled_deriv": 1000, "jacobian_dtype_float32": 100,
                   "jacobian_dtype_bool": 30, "points_with_exactly_zero_constraints": 300, "feasibility_tolerance_between_max_and_euclidean_norm": 200,
                   "compared_aug_lag_deriv_xx(other rho)": 2000},
        "assumptions": ["tolerance 1e-12 x (sum of absolute values of all terms) covers summation-order rounding only",
                        "active-set comparisons are skipped when the reference projection point lies within 1e-10 "
                        "(relative) of the 1e-8 activity threshold"],
    }
