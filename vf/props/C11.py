"""C11 -- caller-owned data is never modified; cached callback results are safe.

Write sanitizer + differential twin runs.  A snapshot proxy between pygradflow and the
user's problem takes a value snapshot of every object a callback returns at hand-over
and re-checks all of them after the solve (and a cached object again each time it is
handed out); x0, y0, the bound arrays and scaling weights / scaling points are
snapshotted around the solve.  A twin run whose callbacks return cached-constant or
memoised-per-point objects must be bit-identical to the run returning fresh copies.
"""
import traceback

import numpy as np
import scipy.sparse as sps

from .. import boot  # noqa: F401
from .. import cfg as C
from .. import mon, work
from ..gen import SpecProblem, make_spec, rng_for

LEVEL = "exploration"
CASE_TIMEOUT = {"quick": 90, "thorough": 180}
SHARDS_PER_JOB = 5


def gen_cases(tier, seed):
    rng = rng_for("C11cases", seed)
    cases = []
    n = 420 if tier == "quick" else 10000
    for k in range(n):
        fam = str(rng.choice(["QP", "QP", "NLP", "NLP", "DEG"]))
        cfgd = C.sample(rng)
        cfgd["iteration_limit"] = int(rng.choice([15, 50]))
        if rng.random() < 0.3:
            cfgd["rho"] = float(10.0 ** rng.uniform(-4, 0))
        if rng.random() < 0.25:
            cfgd.update(C.rare_params(rng, allow_unvalidated=True))
        case = work.mk_case(fam, [seed, k], cfgd)
        case["fmt"] = str(rng.choice(["coo", "csr", "csc"]))
        case["policy"] = str(rng.choice(["const", "memo", "memo", "shared"]))
        case["dup"] = int(rng.choice([0, 1, 2])) if case["policy"] == "shared" else 0
        case["y0"] = "rand" if rng.random() < 0.5 else "none"
        case["wspan"] = 5
        if fam in ("QP", "NLP") and rng.random() < 0.25:
            # the user's matrices reach the step solvers unconverted: no scaling, equality rows only (no slacks)
            cfgd["scaling"] = "none"
            case["gopts"] = {"row_force": ["eq"] * 12}
            if rng.random() < 0.5:
                cfgd["newton"] = "Globalized"
        if rng.random() < 0.15:
            case["deriv_check"] = True
        if rng.random() < 0.3:
            case["obj_array"] = True   # objective values handed over as 0-d arrays (cached like everything else)
            if rng.random() < 0.5:
                cfgd["scaling"] = "none"
        cases.append(case)
    return cases


def value_of(v):
    if sps.issparse(v):
        return ("sparse", v.shape, np.array(v.toarray(), dtype=float, copy=True))
    if isinstance(v, np.ndarray):
        return ("array", v.shape, np.array(v, copy=True))
    return ("scalar", None, v)


def same_value(v, snap):
    kind, shape, val = snap
    if kind == "sparse":
        return sps.issparse(v) and v.shape == shape and np.array_equal(v.toarray(), val, equal_nan=True)
    if kind == "array":
        return isinstance(v, np.ndarray) and v.shape == shape and np.array_equal(v, val, equal_nan=True)
    return v == val or (v != v and val != val)


class SnapshotProblem(mon.ProxyProblem):
    """Proxy taking value snapshots of everything the user's callbacks return."""

    def __init__(self, inner, freeze=False):
        super().__init__(inner)
        self.snaps = {}      # id(obj) -> (obj, snapshot, component)
        self.corrupt = []    # (component, when)
        self.freeze = freeze
        self.handed = 0

    def _out(self, comp, v):
        self.handed += 1
        k = id(v)
        if k in self.snaps and self.snaps[k][0] is v:
            if not same_value(v, self.snaps[k][1]):
                self.corrupt.append((comp, "before being handed out again"))
        else:
            self.snaps[k] = (v, value_of(v), comp)
            if self.freeze:
                if sps.issparse(v):
                    for nm in ("data", "row", "col", "indices", "indptr"):
                        a = getattr(v, nm, None)
                        if isinstance(a, np.ndarray):
                            a.flags.writeable = False
                elif isinstance(v, np.ndarray):
                    v.flags.writeable = False
        return v

    def final_check(self):
        bad = []
        for obj, snap, comp in self.snaps.values():
            if not same_value(obj, snap):
                bad.append(comp)
        return bad

    def obj(self, x):
        v = self.inner.obj(x)
        return self._out("obj", v) if isinstance(v, np.ndarray) else v

    def obj_grad(self, x):
        return self._out("obj_grad", self.inner.obj_grad(x))

    def cons(self, x):
        return self._out("cons", self.inner.cons(x))

    def cons_jac(self, x):
        return self._out("cons_jac", self.inner.cons_jac(x))

    def lag_hess(self, x, y):
        return self._out("lag_hess", self.inner.lag_hess(x, y))


def one_run(case, policy, freeze=False):
    """-> dict with outcome, snapshot findings"""
    spec = make_spec(case["fam"], case["gseed"], **case.get("gopts", {}))
    rng = rng_for("prep", case["fam"], *case["gseed"])
    if case.get("y0") == "rand":
        rng2 = rng_for("y0", *case["gseed"])
        spec.y0 = rng2.normal(size=spec.m)
    inner = SpecProblem(spec, fmt=case["fmt"], dup=case.get("dup", 0) if policy in ("shared", "unshared") else False,
                        policy=policy, obj_array=bool(case.get("obj_array")))
    snap = SnapshotProblem(inner, freeze=freeze)
    cfgd = dict(case["cfg"])
    weights = None
    if cfgd.get("scaling") == "custom":
        weights = C.scaling_weights(rng_for("w", *case["gseed"]), spec.n, spec.m, span=5)
    params = C.make_params(cfgd, spec, weights=weights)
    if case.get("deriv_check"):
        from pygradflow.params import DerivCheck

        params.deriv_check = DerivCheck.CheckAll
    x0 = np.copy(spec.x0)
    y0 = None if spec.y0 is None else np.copy(spec.y0)
    owned = {"x0": x0, "var_lb": inner.given["var_lb"], "var_ub": inner.given["var_ub"]}
    if y0 is not None:
        owned["y0"] = y0
    if spec.m:
        owned["cons_lb"] = inner.given["cons_lb"]
        owned["cons_ub"] = inner.given["cons_ub"]
    if params.scaling is not None:
        owned["scaling.var_weights"] = params.scaling.var_weights
        owned["scaling.cons_weights"] = params.scaling.cons_weights
    if params.scaling_primal is not None:
        owned["scaling_primal"] = params.scaling_primal
    if params.scaling_dual is not None:
        owned["scaling_dual"] = params.scaling_dual
    before = {k: np.array(v, copy=True) for k, v in owned.items()}
    out = mon.run_solve(snap, params, x0, y0)
    changed = [k for k, v in owned.items() if not np.array_equal(v, before[k], equal_nan=True)]
    # index arrays of a sparsity structure the user set up once and shares between all matrices handed out
    nstruct = 0
    for name, arr, pristine in inner.structure_arrays():
        nstruct += 1
        if not np.array_equal(arr, pristine):
            changed.append("structure:" + name)
    return {"out": out, "snap": snap, "changed": changed, "spec": spec, "owned": len(owned) + nstruct, "nstruct": nstruct}


def run_case(case):
    res = {"viol": [], "ctr": {}}
    ctr = res["ctr"]

    def bump(k, v=1):
        ctr[k] = ctr.get(k, 0) + v

    cn = C.normalise(case["cfg"])
    key = {"scaling": cn["scaling"], "fmt": case["fmt"], "policy": case["policy"], "family": case["fam"],
           "step_solver": cn["step_solver"]}

    def bad(kind, what, **kw):
        if len(res["viol"]) < 5:
            res["viol"].append({"what": what, "key": dict(key, kind=kind, **kw)})

    # the counterpart of the shared-structure twin hands out the same storage layout with private index arrays
    fresh = one_run(case, "unshared" if case["policy"] == "shared" else "fresh")
    if fresh["out"].construct_exc is not None:
        bump("base_unusable")
        return res
    bump("fresh_runs")
    bump("caller_owned_arrays_checked", fresh["owned"])
    bump("callback_results_snapshotted", len(fresh["snap"].snaps))
    for k in fresh["changed"]:
        bad("caller-array-modified", "caller-owned array %s was modified by the solve" % k, which=k)
    fb = fresh["snap"].final_check()
    for comp in sorted(set(fb)):
        bad("callback-result-modified", "an object returned by the %s callback was modified after hand-over "
            "(fresh-copy policy)" % comp, component=comp)
    twin = one_run(case, case["policy"])
    bump("twin_runs")
    bump("twin_policy_" + case["policy"])
    bump("shared_structure_arrays_checked", twin["nstruct"])
    bump("twin_runs_with_derivative_check", int(bool(case.get("deriv_check"))))
    bump("twin_runs_with_array_valued_objective", int(bool(case.get("obj_array"))))
    bump("scaling_" + cn["scaling"])
    bump("fmt_" + case["fmt"])
    bump("cached_objects_handed_out_again", max(0, twin["snap"].handed - len(twin["snap"].snaps)))
    tb = sorted(set(twin["snap"].final_check() + [c for c, _ in twin["snap"].corrupt]))
    for comp in tb:
        bad("cached-object-corrupted", "a cached object returned by the %s callback changed its value (%s policy, %s, "
            "scaling %s)" % (comp, case["policy"], case["fmt"], cn["scaling"]), component=comp)
    for k in twin["changed"]:
        bad("caller-array-modified", "caller-owned array %s was modified by the solve" % k, which=k)
    a, b = fresh["out"], twin["out"]
    diff = None
    if (a.result is None) != (b.result is None):
        diff = "fresh run %s, %s run %s" % (work.outcome_class(a), case["policy"], work.outcome_class(b))
    else:
        Ta, Tb = a.trace.trials, b.trace.trials
        if len(Ta) != len(Tb) or not all(work.same_trial(x, y) for x, y in zip(Ta, Tb)):
            diff = "trajectories differ (%d vs %d trial steps)" % (len(Ta), len(Tb))
        elif a.result is not None:
            ra, rb = a.result, b.result
            if ra.status != rb.status or not (np.array_equal(ra.x, rb.x) and np.array_equal(ra.y, rb.y)
                                              and np.array_equal(ra.d, rb.d)):
                diff = "results differ"
    if diff:
        exc = b.exc if b.exc is not None else None
        bad("twin-differs", "problem with %s callbacks does not reproduce the fresh-copy run: %s%s"
            % (case["policy"], diff, (" [%s: %s]" % (type(exc).__name__, str(exc)[:80])) if exc else ""))
    if res["viol"]:
        # witness: where is the offending write?  (frozen buffers; never a verdict by itself)
        try:
            fz = one_run(case, case["policy"], freeze=True)
            o = fz["out"]
            if o.exc is not None and "read-only" in str(o.exc):
                tb = "".join(traceback.format_exception(type(o.exc), o.exc, o.exc.__traceback__))
                res["viol"][0].setdefault("detail", {})["write_site"] = o.site
                res["viol"][0]["detail"]["traceback_tail"] = tb[-700:]
                for v in res["viol"]:
                    v["key"]["write_site"] = o.site
        except Exception:
            pass
    else:
        res["nt_keys"] = ["%s-%s-%s" % (case["fam"], "-".join(map(str, case["gseed"])), case["policy"])]
    if case["gseed"][-1] % 60 == 0:
        res["sample"] = {"spec": fresh["spec"].summary(), "cfg": case["cfg"], "fmt": case["fmt"], "policy": case["policy"],
                         "fresh_outcome": work.outcome_class(a), "twin_outcome": work.outcome_class(b),
                         "objects_snapshotted": len(fresh["snap"].snaps)}
    return res


def finalize(agg, tier):
    return {
        "rule": "QP/NLP/degenerate specs (affine rows give constant Jacobians/Hessians; non-zero equality offsets and "
                "slacks present) x COO/CSR/CSC x random configurations (all scalings; 15% with the derivative check switched on) x return policy of the twin "
                "(one cached constant object / memoised per point / fresh value arrays on one shared set of non-canonically ordered index arrays); every object returned by a callback is snapshotted at "
                "hand-over; non-trivial = twin pair compared and identical with no snapshot mismatch; distinct by "
                "(spec seed, policy)",
        "floors": {"twin_runs": 300, "callback_results_snapshotted": 20000, "cached_objects_handed_out_again": 5000,
                   "caller_owned_arrays_checked": 1500, "twin_policy_shared": 40, "twin_runs_with_derivative_check": 30, "twin_runs_with_array_valued_objective": 60, "shared_structure_arrays_checked": 100, "scaling_custom": 30, "scaling_GradJac": 30, "fmt_coo": 60,
                   "fmt_csr": 60, "fmt_csc": 60},
        "assumptions": ["value = dense logical value (scipy may reorder indices of a matrix in place without changing it); "
                        "the frozen-buffer run is used only to locate the write for the witness, never as a verdict"],
    }
