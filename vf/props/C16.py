"""C16 -- the penalty parameter is positive and never decreases.

Monotonicity monitor over the penalty parameter of every trial step (Solver._compute_step
override), solver.rho read inside the ComputedStep callback and the decisions of the
penalty strategy (proxy), plus in-situ icontract postconditions on each strategy's
`update` (next_rho >= penalty of the solver, > 0).
"""
import numpy as np

from .. import boot
from .. import cfg as C
from .. import mon, work
from ..gen import rng_for

LEVEL = "exploration"
CASE_TIMEOUT = {"quick": 60, "thorough": 120}
FAMS = ["QP", "NLP", "NLP", "DEG", "INF", "UNB"]

_contract_state = {"installed": False, "evals": 0, "fails": []}


def install_contracts():
    """icontract postcondition on every PenaltyStrategy.update of the real code."""
    if _contract_state["installed"]:
        return
    boot.ensure_deps()
    import icontract
    import pygradflow.penalty as PN

    class PenaltyContractBroken(Exception):
        pass

    def next_rho_sane(self, result):
        _contract_state["evals"] += 1
        nr = result.next_rho
        ok = bool(nr > 0.0) and (not hasattr(self, "rho") or nr >= self.params.rho)
        if not ok:
            _contract_state["fails"].append((type(self).__name__, nr))
        return True  # record only: the trace checker is the oracle, the contract never aborts a solve

    for name in ("ConstantPenalty", "DualNormUpdate", "DualEquilibration", "ParetoDecrease", "PenaltyFilter"):
        cls = getattr(PN, name)
        cls.update = icontract.ensure(next_rho_sane, error=PenaltyContractBroken)(cls.update)
    _contract_state["installed"] = True


def gen_cases(tier, seed):
    rng = rng_for("C16cases", seed)
    cases = []
    n = 700 if tier == "quick" else 15000
    axes = {"control": C.CONTROL, "newton": ["Simplified", "Full", "ActiveSet"], "penalty": C.PENALTY,
            "scaling": ["none", "none", "custom", "GradJac"]}
    for k in range(n):
        fam = str(rng.choice(FAMS))
        cfgd = C.sample(rng, axes)
        if rng.random() < 0.35:
            cfgd["penalty"] = "DualNorm"
        cfgd["iteration_limit"] = int(rng.choice([60, 150]))
        if rng.random() < 0.25:
            cfgd.update(C.rare_params(rng, allow_unvalidated=True))
        cfgd["rho"] = float(10.0 ** rng.uniform(-8, 1)) if rng.random() < 0.85 else float(10.0 ** rng.uniform(1, 20))
        case = work.mk_case(fam, [seed, k], cfgd)
        r = rng.random()
        if r < 0.75:
            case["y0"] = "rand"
            case["y0_scale"] = float(10.0 ** rng.uniform(-2, 6))
        # history: solve again on the same solver object (second solve from zero multipliers)
        case["resolve"] = bool(rng.random() < 0.3)
        # a user callback that probes one step ahead with the solver's own single-step entry point while the solve runs
        case["probe"] = bool(rng.random() < 0.25)
        cases.append(case)
    return cases


def run_case(case):
    install_contracts()
    e0 = _contract_state["evals"]
    _contract_state["fails"] = []
    p = work.prepare(case, record_sites=False, keep_args=False)
    cb, holder, probes = None, [], [0]
    if case.get("probe"):
        import numpy as np

        xs0 = None if p.x0 is None else np.array(p.x0, dtype=float, copy=True)
        ys0 = None if p.y0 is None else np.array(p.y0, dtype=float, copy=True)

        def cb(iterate, next_iterate, accept, _n=[0]):
            _n[0] += 1
            if _n[0] % 4 == 0 and holder:
                try:
                    holder[0].perform_iteration(xs0, ys0)
                    probes[0] += 1
                except Exception:
                    pass

    out = mon.run_solve(p.rec, p.params, p.x0, p.y0, user_callback=cb, solver_holder=holder)
    cls = work.outcome_class(out)
    res = {"viol": [], "ctr": {"solves": 1, "outcome_" + cls.split("@")[0]: 1, "probing_calls_during_solves": probes[0]}}
    if out.solver is None or not out.trace.trials:
        return res
    viol, stats = work.check_penalty(p, out)
    if case.get("resolve") and out.result is not None:
        # the same solver object is used again; every solve must satisfy the property on its own
        import numpy as np

        out2 = mon.Outcome()
        out2.solver = out.solver
        out2.result = out2.exc = out2.construct_exc = None
        try:
            out2.result = out.solver.solve(p.x0, np.zeros(p.spec.m))
        except Exception as ex:
            out2.exc = ex
        out2.trace = out.solver.trace
        v2, s2 = work.check_penalty(p, out2)
        for v in v2:
            v["what"] = "second solve on the same solver object: " + v["what"]
            v["key"]["history"] = "resolve"
        viol += v2
        res["ctr"]["resolves_checked"] = 1
        for k in ("trials", "penalty_increases", "penalty_updates_seen", "vetoes"):
            stats[k] += s2[k]
    for nm, nr in _contract_state["fails"][:1]:
        viol.append({"what": "%s.update returned next_rho=%r (not positive or below the initial penalty)" % (nm, nr),
                     "key": {"kind": "contract-update", "penalty": p.cfg["penalty"]}})
    res["viol"] = viol[:4]
    res["ctr"].update({"trials": stats["trials"], "penalty_increases": stats["penalty_increases"],
                       "penalty_updates_seen": stats["penalty_updates_seen"], "vetoes": stats["vetoes"],
                       "contract_evaluations": _contract_state["evals"] - e0,
                       "penalty_" + p.cfg["penalty"]: 1})
    if p.cfg["penalty"] == "DualNorm":
        res["ctr"]["dualnorm_increases"] = stats["penalty_increases"]
    if stats["penalty_increases"] > 0:
        res["nt_keys"] = ["%s-%s" % (case["fam"], "-".join(map(str, case["gseed"])))]
    if case["gseed"][-1] % 140 == 0:
        T = out.trace.trials
        res["sample"] = {"spec": p.spec.summary(), "cfg": case["cfg"], "y0_scale": case.get("y0_scale"), "outcome": cls,
                         "rho_per_trial": [t["rho"] for t in T[:12]]}
    return res


def finalize(agg, tier):
    return {
        "rule": "QP/NLP/degenerate/infeasible/unbounded specs x six penalty policies (35% extra weight on DualNorm) x "
                "controllers x Newton types x scalings x initial penalty 1e-8..10 (15%: 10..1e20) x starting multipliers of norm 0 and "
                "1e-2..1e6; 30% of the cases solve a second time on the same solver object (zero starting multipliers) and judge both solves; in 25% of the cases a user callback calls the solver's own perform_iteration every fourth trial while the solve runs; non-trivial = the penalty was raised at least once during the run; distinct by spec seed",
        "floors": {"trials": 10000, "penalty_increases": 200, "dualnorm_increases": 100, "contract_evaluations": 2000,
                   "penalty_Constant": 30, "vetoes": 50, "resolves_checked": 50, "probing_calls_during_solves": 500},
        "assumptions": ["the icontract postcondition records (never raises) so that it cannot perturb a solve; zero "
                        "evaluations would make the run inconclusive"],
    }
