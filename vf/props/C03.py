"""C03 -- well-posed convex programs are actually solved.

Bounded-progress monitor: generated strictly convex QPs of the stated class (membership
is *measured*: cond(Q) <= 100, smallest singular value of the Jacobian on the non-fixed
columns >= 0.1, feasible point known by construction) must end Optimal within 5000
iterations from random in-bounds starts, with default parameters and with the one-axis
variations named in the property.  Optimal results also pass the C01 KKT oracle.
"""
import numpy as np

from .. import boot  # noqa: F401
from .. import mon, work
from .. import ref as R
from ..gen import rng_for

LEVEL = "exploration"
CASE_TIMEOUT = {"quick": 120, "thorough": 240}
BUDGET = 5000
VARIANTS = [
    ("default", {}),
    ("newton=Full", {"newton": "Full"}),
    ("newton=ActiveSet", {"newton": "ActiveSet"}),
    ("step_solver=Standard", {"step_solver": "Standard"}),
    ("step_solver=Extended", {"step_solver": "Extended"}),
    ("step_solver=Asymmetric", {"step_solver": "Asymmetric"}),
    ("control=Exact", {"control": "Exact"}),
]


def gen_cases(tier, seed):
    rng = rng_for("C03cases", seed)
    cases = []
    ninst = 170 if tier == "quick" else 5200
    nband = 6 if tier == "quick" else 280
    k = 0
    for i in range(ninst):
        for vname, v in VARIANTS:
            c = work.mk_case("QP", [seed, i], dict(v, iteration_limit=BUDGET), variant=vname,
                             x0="restart", x0_seed=int(rng.integers(0, 1000)))
            if i % 6 == 5:
                # any scipy.sparse format may come back from the callbacks (banded data written as DIA, incl.
                # hand-assembled diagonals with left-over values in the unused slots); equality rows only in
                # half of these instances, so that the matrices reach the solver without an added slack block
                c["fmt"] = ["diaj", "dia", "diaj", "bsr", "lil", "dok"][(i // 6 + k) % 6]
                if (i // 6) % 2 == 0:
                    c["gopts"] = {"row_force": ["eq"] * 12}
            cases.append(c)
            k += 1
    # stored witness of the open finding KF-C03-ILLCOND-ACTIVE-SET (always exercised)
    cases.append(work.mk_case("FILE", [0], {"newton": "Full", "iteration_limit": BUDGET}, variant="newton=Full",
                              gopts={"path": "witness/C03_illcond_active_set.json"}))
    # ... and of its second manifestation KF-C03-ILLCOND-ACTIVE-SET-LOCINF
    w2 = work.mk_case("FILE", [0], {"step_solver": "Standard", "iteration_limit": BUDGET}, variant="step_solver=Standard",
                      gopts={"path": "witness/C03_illcond_locally_infeasible.json"})
    w2.update(fmt="coo", dup=2, y0="none")
    cases.append(w2)
    # ... and of KF-C03-NEWTON-STEPSIZE-CYCLE
    w3 = work.mk_case("FILE", [0], {"newton": "Full", "iteration_limit": BUDGET}, variant="newton=Full",
                      gopts={"path": "witness/C03_newton_stepsize_cycle.json"})
    w3.update(fmt="coo", dup=2, y0="none")
    cases.append(w3)
    for i in range(nband):
        for vname, v in VARIANTS:
            c = work.mk_case("BAND", [seed, 10_000 + i], dict(v, iteration_limit=BUDGET), variant=vname,
                             x0="restart", x0_seed=int(rng.integers(0, 1000)))
            cases.append(c)
    return cases


def in_class(spec):
    """Measured membership in the class named by the property."""
    ev = np.linalg.eigvalsh(spec.Q)
    if ev.min() <= 0 or ev.max() / ev.min() > 100.0 * (1 + 1e-9):
        return False, "cond(Q)=%.3g" % (ev.max() / max(ev.min(), 1e-300))
    nf = spec.var_lb != spec.var_ub
    if spec.m:
        if nf.sum() < spec.m:
            return False, "more rows than free columns"
        sv = np.linalg.svd(spec.A[:, nf], compute_uv=False)
        if sv.min() < 0.1:
            return False, "sigma_min(A)=%.3g" % sv.min()
    xs = spec.meta["xs"]
    c = spec.A @ xs + spec.e
    if np.any(xs < spec.var_lb - 1e-12) or np.any(xs > spec.var_ub + 1e-12):
        return False, "reference point outside box"
    if spec.m and (np.any(c < spec.cons_lb - 1e-9) or np.any(c > spec.cons_ub + 1e-9)):
        return False, "reference point infeasible"
    return True, ""


def active_set_conditioning(spec):
    """Independent reference solution (scipy trust-constr) -> (smallest singular value of the Jacobian of all
    constraints active at the solution, rows and bounds; largest multiplier).  Used only to classify a
    non-converged run for the known-findings file."""
    try:
        from scipy.optimize import Bounds, LinearConstraint, minimize

        f = lambda x: 0.5 * x @ spec.Q @ x + spec.q @ x  # noqa: E731
        g = lambda x: spec.Q @ x + spec.q  # noqa: E731
        cons = [LinearConstraint(spec.A, spec.cons_lb - spec.e, spec.cons_ub - spec.e)] if spec.m else []
        r = minimize(f, np.array(spec.meta["xs"], dtype=float), jac=g, hess=lambda x: spec.Q, method="trust-constr",
                     constraints=cons, bounds=Bounds(spec.var_lb, spec.var_ub),
                     options=dict(gtol=1e-10, xtol=1e-12, maxiter=3000))
        x = r.x
        c = spec.A @ x + spec.e
        tol = 1e-6
        rows = [i for i in range(spec.m) if abs(c[i] - spec.cons_lb[i]) < tol or abs(c[i] - spec.cons_ub[i]) < tol]
        bnds = [j for j in range(spec.n) if abs(x[j] - spec.var_lb[j]) < tol or abs(x[j] - spec.var_ub[j]) < tol]
        if not rows and not bnds:
            return None, None
        G = np.vstack([spec.A[rows].reshape(-1, spec.n), np.eye(spec.n)[bnds].reshape(-1, spec.n)])
        sv = np.linalg.svd(G, compute_uv=False)
        smin = float(sv.min()) if G.shape[0] <= spec.n else 0.0
        mult = np.linalg.lstsq(G.T, -g(x), rcond=None)[0]
        return smin, float(np.max(np.abs(mult)))
    except Exception:
        return None, None


def run_case(case):
    p = work.prepare(case, record_sites=False, keep_args=False)
    spec = p.spec
    ok, why = in_class(spec)
    if not ok:
        return {"viol": [], "ctr": {"outside_class": 1}}
    out = mon.run_solve(p.rec, p.params, p.x0, p.y0)
    v = case["variant"]
    key = {"variant": v, "family": case["fam"]}
    res = {"viol": [], "ctr": {"runs": 1, "runs_" + v: 1, "family_" + case["fam"]: 1}}
    if p.fmt not in ("coo", "csr", "csc"):
        res["ctr"]["runs_fmt_" + p.fmt] = 1
        res["ctr"]["runs_other_formats_equality_rows_only"] = int(bool(case.get("gopts")))
    if out.result is None:
        res["viol"].append({"what": "solve raised %s (%s) on a problem of the stated class, variant %s"
                                    % (type(out.exc).__name__ if out.exc else type(out.construct_exc).__name__,
                                       out.kind, v),
                            "key": dict(key, kind="raised", outcome=work.outcome_class(out))})
        return res
    r = out.result
    its = int(r.iterations)
    res["maxes"] = {"iterations_" + v: its, "iterations": its}
    b = 1
    while b < its:
        b *= 2
    res["hist"] = {"iterations_le": {str(b): 1}}
    if r.status.name != "Optimal":
        smin, mult = active_set_conditioning(spec)
        degenerate = bool(smin is not None and smin < 0.1)
        # measured marker of a step-size cycle: accepted steps after which the residual is more than three times the
        # residual after the previous accepted step (the ratio-based controllers accept on contraction of the Newton
        # corrections, not of the residual)
        blow, prev = 0, None
        for t in out.trace.trials:
            if t.get("accepted") and not t.get("same"):
                try:
                    cur = float(t["next"].total_res)
                except Exception:
                    continue
                if prev is not None and cur > 3.0 * prev:
                    blow += 1
                prev = cur
        res["viol"].append({"what": "status %s after %d iterations (budget %d) on a problem of the stated class, variant %s "
                                    "(independent reference solution: smallest singular value of the Jacobian of the "
                                    "active rows and active bounds %s, largest multiplier %s)"
                                    % (r.status.name, its, BUDGET, v, "%.3g" % smin if smin is not None else "n/a",
                                       "%.3g" % mult if mult is not None else "n/a"),
                            "key": dict(key, kind="not-optimal", status=r.status.name, degenerate_active_set=degenerate,
                                        residual_blowups=bool(blow >= 10)),
                            "detail": {"spec": spec.summary(), "x0": p.x0, "gseed": case["gseed"]}})
        return res
    res["ctr"]["optimal"] = 1
    if np.any(np.asarray(r.d) != 0):
        res["ctr"]["optimal_with_active_bounds"] = 1
    res["nt_keys"] = ["%s-%s-%s" % (case["fam"], "-".join(map(str, case["gseed"])), v)]
    fails = R.kkt_check(p.P, R.Weights.zero(spec.n, spec.m), r.x, r.y, r.d, p.params.opt_tol, p.params.active_tol)
    if fails:
        res["viol"].append({"what": "Optimal result fails the KKT oracle: %s" % fails[0], "key": dict(key, kind="kkt")})
    if case["gseed"][-1] % 40 == 0 and v == "default":
        res["sample"] = {"spec": spec.summary(), "variant": v, "x0": p.x0, "iterations": its, "status": r.status.name}
    return res


def finalize(agg, tier):
    return {
        "rule": "strictly convex QPs (dense n<=12 with cond(Q)<=100 and full-row-rank Jacobian with singular values in "
                "[0.5,3] on the non-fixed columns; banded n=50..300 with disjoint-support rows) built around a feasible "
                "point, any mix of free/lower/upper/boxed/fixed variables and eq/ge/le/ranged rows, every sixth instance with callbacks returning DIA (also hand-assembled, with non-finite left-overs in the unused slots) / BSR / LIL / DOK matrices and half of those with equality rows only, random in-bounds start "
                "per run, each instance under 7 configurations (default, Newton Full/ActiveSet, step solver "
                "Standard/Extended/Asymmetric, Exact control); class membership is measured per instance; "
                "non-trivial = run ended Optimal and passed the KKT oracle; distinct by (instance, variant)",
        "floors": {"runs": 800, "optimal": 800, "optimal_with_active_bounds": 200, "family_BAND": 20,
                   "runs_control=Exact": 100, "runs_newton=Full": 100, "runs_fmt_diaj": 20,
                   "runs_other_formats_equality_rows_only": 20},
        "extra": {"iteration_budget": BUDGET},
        "assumptions": ["budget 5000 iterations as named in the property; the iteration histogram and per-variant maxima "
                        "in this file show the drift margin"],
    }
