"""C05 -- user functions are only evaluated inside the variable bounds.

Bounds sanitizer: a recording proxy around the user's Problem checks the argument of
every callback evaluation made during monitored solves against the user's box (exactly;
scaling is by powers of two), except evaluations whose pygradflow call-site chain
contains the derivative checker or the scaling computation (the two stated exemptions,
read from the recorded stack).  Iterates handed to ComputedStep callbacks are checked
against the reference-transformed box, and result.x against the user's box.
"""
import numpy as np

from .. import boot  # noqa: F401
from .. import cfg as C
from .. import mon, work
from .. import ref as R
from ..gen import SpecProblem, rng_for

LEVEL = "exploration"
CASE_TIMEOUT = {"quick": 60, "thorough": 120}
FAMS = ["QP", "NLP", "NLP", "DEG", "NCVX", "UNB", "INF"]


def gen_cases(tier, seed):
    rng = rng_for("C05cases", seed)
    cases = []
    k = 0
    rows = C.pairwise(seed=seed + 5)
    reps = 3 if tier == "quick" else 40
    for rep in range(reps):
        for row in rows:
            cases.append(_case(rng, FAMS[k % len(FAMS)], [seed, k], dict(row)))
            k += 1
    nrand = 420 if tier == "quick" else 17000
    for _ in range(nrand):
        fam = str(rng.choice(FAMS))
        cases.append(_case(rng, fam, [seed, k], C.sample(rng)))
        k += 1
    return cases


def _case(rng, fam, gseed, cfgd):
    cfgd["iteration_limit"] = 120 if fam != "INF" else 200
    if rng.random() < 0.2:
        cfgd["deriv_check"] = "all"
    if rng.random() < 0.2:
        cfgd["rho"] = float(10.0 ** rng.uniform(-6, 1))
    if rng.random() < 0.15:
        cfgd["lamb_init"] = float(10.0 ** rng.uniform(-3, 0))
    if rng.random() < 0.25:
        cfgd.update(C.rare_params(rng, allow_unvalidated=True))
    case = work.mk_case(fam, gseed, cfgd)
    if cfgd.get("scaling") == "custom" and rng.random() < 0.3:
        case["wspan"] = 75   # very unequal scales: scaled bounds of huge / tiny magnitude
    case["y0"] = "rand" if rng.random() < 0.3 else "none"
    if rng.random() < 0.12:
        # the k-th linear solve silently returns a vector containing NaN
        case["lin_nan"] = int(rng.integers(0, 30))
    if fam in ("QP", "NLP") and rng.random() < 0.25:
        # start point handed over with an integer dtype (array of ints / Python int), no slacks, no scaling
        cfgd["scaling"] = "none"
        case["gopts"] = {"row_force": ["eq"] * 12, "var_force": ["lower", "boxed", "upper", "lower"]}
        case["int_start"] = str(rng.choice(["array", "scalar"]))
        return case
    if fam in ("QP", "NLP") and rng.random() < 0.3:
        cfgd["scaling"] = "none"
        # history of the problem object: it (or a deep copy of it) was first solved without variable bounds, then the
        # bounds were imposed in place (as branch-and-bound style callers do) and a new solver was created
        case["late_bounds"] = str(rng.choice(["same_object", "deepcopy"]))
    r = rng.random()
    if r < 0.1:
        case["x0"] = "none"
    elif r < 0.5:
        case["x0"] = "restart"
        case["x0_seed"] = int(rng.integers(0, 1000))
    return case


def run_case(case):
    from pygradflow.params import DerivCheck

    cfgd = dict(case["cfg"])
    dc = cfgd.pop("deriv_check", None)
    case2 = dict(case, cfg=cfgd)
    p = work.prepare(case2)
    if case.get("int_start"):
        lo = np.ceil(p.spec.var_lb)
        hi = np.floor(p.spec.var_ub)
        if case["int_start"] == "array":
            xi = np.where(np.isfinite(lo), lo, np.where(np.isfinite(hi), hi, 0.0))
            xi = np.minimum(np.maximum(xi, lo), np.where(np.isfinite(hi), hi, xi))
            if np.all(xi >= p.spec.var_lb) and np.all(xi <= p.spec.var_ub):
                p.x0 = xi.astype(np.int64)
        else:
            kmin = np.max(lo[np.isfinite(lo)], initial=-np.inf)
            kmax = np.min(hi[np.isfinite(hi)], initial=np.inf)
            if kmin <= kmax:
                k = kmin if np.isfinite(kmin) else (kmax if np.isfinite(kmax) else 0.0)
                p.x0 = int(k)
        p.int_start_used = not isinstance(p.x0, np.ndarray) or p.x0.dtype.kind == "i"
    if dc:
        p.params.deriv_check = DerivCheck.CheckAll
    if case.get("late_bounds"):
        import copy

        from pygradflow.solver import Solver

        free = copy.deepcopy(p.spec)
        free.var_lb = np.full(free.n, -np.inf)
        free.var_ub = np.full(free.n, np.inf)
        # the object handed to both solvers is the same one (the recording wrapper, a Problem subclass like any
        # user problem): whatever the first solve left on it is there for the second
        rec = mon.RecordingProblem(SpecProblem(free, fmt=p.fmt, dup=p.dup))
        rec.enabled = False
        try:
            Solver(rec, C.make_params(dict(cfgd, iteration_limit=3), free, weights=p.weights)).solve(
                None if p.x0 is None else np.array(p.x0, dtype=float, copy=True), p.y0)
        except Exception:
            pass   # (only the history matters)
        if case["late_bounds"] == "deepcopy":
            rec = copy.deepcopy(rec)
        for obj in (rec, rec.inner):
            obj.var_lb[:] = p.spec.var_lb
            obj.var_ub[:] = p.spec.var_ub
        rec.calls = []
        rec.counts = {c: 0 for c in mon.COMPONENTS}
        rec.enabled = True
        p.inner = rec.inner
        p.rec = rec
    out = mon.run_solve(p.rec, p.params, p.x0, p.y0,
                        lin_fail=("nan", case["lin_nan"]) if "lin_nan" in case else None)
    cls = work.outcome_class(out)
    res = {"viol": [], "ctr": {"solves": 1, "outcome_" + cls.split("@")[0]: 1}}
    if out.factory is not None and out.factory.fired:
        res["ctr"]["solves_with_silent_nan_from_linear_solver"] = 1
    if out.construct_exc is not None:
        return res
    w = work.weights_of(out.solver, p.spec)
    Rt = R.RefTransform(SpecProblem(p.spec, fmt=p.fmt), w)
    viol, stats = work.check_in_bounds(p, out, (Rt.var_lb, Rt.var_ub))
    res["viol"] = viol[:4]
    res["ctr"].update(stats)
    c = p.cfg
    res["ctr"]["newton_" + c["newton"]] = 1
    res["ctr"]["scaling_" + c["scaling"]] = 1
    res["ctr"]["control_" + c["control"]] = 1
    res["ctr"]["active_" + c["active"]] = 1
    sites = set()
    for cl in p.rec.calls:
        sites.add(work.interesting_site(cl.get("site", [])))
    res["sets"] = {"call_sites": sorted(sites)}
    x0 = work.x0_array(p)
    on_bound = bool(np.any((x0 == p.spec.var_lb) | (x0 == p.spec.var_ub)))
    res["ctr"]["starts_on_a_bound"] = int(on_bound)
    res["ctr"]["integer_dtype_starts"] = int(bool(getattr(p, "int_start_used", False)))
    res["ctr"]["bounds_imposed_after_an_unbounded_solve"] = int(bool(case.get("late_bounds")))
    if stats["evals_checked"] > 20:
        res["nt_keys"] = ["%s-%s" % (case["fam"], "-".join(map(str, case["gseed"])))]
    if case["gseed"][-1] % 150 == 0:
        res["sample"] = {"spec": p.spec.summary(), "cfg": case["cfg"], "outcome": cls,
                         "evaluations_checked": stats["evals_checked"], "exempt": stats["evals_exempt"],
                         "call_sites": sorted(sites)[:12]}
    return res


def finalize(agg, tier):
    return {
        "rule": "all problem families x pairwise covering array + random configurations (all Newton types, active-set "
                "rules, controllers, scalings) x in-bounds starts (generator start, integer-dtype arrays / Python int scalars, resampled start incl. components "
                "exactly on bounds, x0=None) x history of the problem object (in 30% of the QP/NLP runs, unscaled, it, or a deep copy, was solved without variable bounds first and the bounds were then imposed in place) x derivative check on in 20% of the runs (exercises the exemption) x in 12% of the runs one linear solve that silently returns a vector containing NaN; "
                "non-trivial = more than 20 non-exempt evaluations were checked; distinct by spec seed",
        "floors": {"evals_checked": 10000, "newton_Simplified": 50, "newton_Full": 50, "newton_ActiveSet": 50,
                   "newton_Globalized": 50, "evals_exempt": 100, "callback_iterates_checked": 5000,
                   "starts_on_a_bound": 50, "integer_dtype_starts": 10,
                   "solves_with_silent_nan_from_linear_solver": 20, "bounds_imposed_after_an_unbounded_solve": 25},
        "assumptions": ["exemptions are decided from the recorded call-site chain (deriv_check:deriv_check, "
                        "scale:create_scaling), nothing else is exempt"],
    }
