"""C12 -- counters, callbacks and the recorded path tell one consistent story.

Single-pass checker over the trace recorded for each monitored solve: trial steps
(Solver._compute_step override), penalty decisions (proxy installed through
pygradflow.solver.penalty_strategy), ComputedStep callbacks (with object identities) and
the SolverResult summary fields, path and model times.
"""
import numpy as np

from .. import boot  # noqa: F401
from .. import cfg as C
from .. import mon, work
from .. import ref as R
from ..gen import SpecProblem, rng_for

LEVEL = "exploration"
CASE_TIMEOUT = {"quick": 60, "thorough": 120}
FAMS = ["QP", "NLP", "NLP", "DEG", "NCVX", "UNB", "INF"]


def gen_cases(tier, seed):
    rng = rng_for("C12cases", seed)
    cases = []
    k = 0
    axes = {"control": C.CONTROL, "penalty": C.PENALTY, "newton": C.NEWTON, "scaling": ["none", "custom", "GradJac"]}
    n = 800 if tier == "quick" else 20000
    for _ in range(n):
        fam = str(rng.choice(FAMS))
        cfgd = C.sample(rng, axes)
        if rng.random() < 0.4:
            cfgd["penalty"] = str(rng.choice(["ObjectiveFilter", "LagrangianFilter"]))
        cfgd["iteration_limit"] = int(rng.choice([0, 1, 2, 5, 40, 120]))
        cfgd["collect_path"] = bool(rng.random() < 0.7)
        if rng.random() < 0.3:
            cfgd["rho"] = float(10.0 ** rng.uniform(-6, 1))
        if rng.random() < 0.2:
            cfgd["lamb_init"] = float(10.0 ** rng.uniform(-2, 1))
        if rng.random() < 0.25:
            cfgd.update(C.rare_params(rng, allow_unvalidated=True))
        case = work.mk_case(fam, [seed, k], cfgd)
        case["y0"] = "rand" if rng.random() < 0.4 else "none"
        if rng.random() < 0.1:
            case["x0"] = "none"
        elif rng.random() < 0.15:
            case["x0_out"] = True   # a start that violates some variable bounds (runs that end before any step is accepted)
        if rng.random() < 0.2:
            # a step-size policy that answers accepted steps with extreme inverse step sizes: the model clock first
            # becomes huge, later steps are tiny compared with it (down to t + dt == t)
            case["lamb_script"] = int(rng.integers(0, 10 ** 6))
            cfgd["collect_path"] = True
            cfgd["iteration_limit"] = int(rng.choice([5, 40, 120]))
        cases.append(case)
        k += 1
    return cases


def run_case(case):
    p = work.prepare(case, record_sites=False, keep_args=False)
    cb = None
    x0_expected = None if p.x0 is None else p.x0.copy()
    y0_expected = None if p.y0 is None else p.y0.copy()
    if case["gseed"][-1] % 3 == 0 and p.x0 is not None:
        # the caller owns x0 / y0 and re-uses those buffers while the solve is running (a callback that
        # publishes the newest trial point into them); the solve must not depend on them any more
        def cb(iterate, next_iterate, accept, _x0=p.x0, _y0=p.y0):
            _x0[:] = np.resize(np.asarray(next_iterate.x, dtype=float), _x0.shape) + 1.0
            if _y0 is not None and _y0.size:
                _y0[:] = -7.0

    script = None
    if "lamb_script" in case:
        from ..gen import rng_for

        r2 = rng_for("lambscript", case["lamb_script"])
        lo, hi = float(p.params.lamb_min), float(p.params.lamb_max)
        seq = [(lo if r2.random() < 0.8 else lo * 10.0 ** r2.uniform(0, 3)) for _ in range(int(r2.integers(1, 3)))]
        seq += [min(hi * 1e-3, 10.0 ** r2.uniform(4, 9)) for _ in range(int(r2.integers(2, 6)))]

        def script(i, res, _seq=seq, _n=[0]):
            if not res.accepted:
                return None
            v = _seq[_n[0] % len(_seq)]
            _n[0] += 1
            return v

    out = mon.run_solve(p.rec, p.params, p.x0, p.y0, user_callback=cb, lamb_script=script)
    if cb is not None:
        # the trace checker compares with the start values handed over
        p.x0, p.y0 = x0_expected, y0_expected
    cls = work.outcome_class(out)
    res = {"viol": [], "ctr": {"solves": 1, "outcome_" + cls.split("@")[0]: 1}}
    if out.result is None:
        return res
    w = work.weights_of(out.solver, p.spec)
    Rt = R.RefTransform(SpecProblem(p.spec, fmt=p.fmt), w)
    viol, stats = work.check_story(p, out, Rt)
    res["viol"] = viol[:4]
    res["ctr"].update({"results_checked": 1, "trials": stats["trials"], "effective_accepts": stats["effective_accepts"],
                       "vetoed_trials": stats["vetoed"], "rejected_trials": stats["controller_rejects"],
                       "paths_checked": stats.get("paths_checked", 0)})
    res["ctr"]["penalty_" + p.cfg["penalty"]] = 1
    res["ctr"]["runs_with_caller_reusing_start_buffers"] = int(cb is not None)
    res["ctr"]["out_of_bounds_starts_without_accepted_step"] = int(bool(case.get("x0_out")) and stats["effective_accepts"] == 0)
    if script is not None and out.result.model_times is not None:
        mt = np.asarray(out.result.model_times, dtype=float)
        res["ctr"]["runs_with_scripted_step_sizes"] = 1
        res["ctr"]["runs_with_absorbed_model_time"] = int(mt.size > 1 and bool(np.any(np.diff(mt) == 0.0)))
    res["ctr"]["control_" + p.cfg["control"]] = 1
    if stats["trials"] >= 2:
        res["nt_keys"] = ["%s-%s" % (case["fam"], "-".join(map(str, case["gseed"])))]
    if case["gseed"][-1] % 160 == 0:
        res["sample"] = {"spec": p.spec.summary(), "cfg": case["cfg"], "outcome": cls, "trace": stats,
                         "iterations": out.result.iterations, "num_accepted_steps": out.result.num_accepted_steps}
    return res


def finalize(agg, tier):
    return {
        "rule": "all problem families x random (controller, penalty policy incl. 40% filter policies that veto steps, "
                "Newton type, scaling) x iteration limits 0/1/2/5/40/120 x collect_path in 70% of the runs x in 20% of the runs a scripted step-size policy (accepted steps answered with inverse step sizes at lamb_min, then 1e4..1e9: model clock huge, later steps absorbed by it); non-trivial = "
                "the solve computed at least two trial steps; distinct by spec seed",
        "floors": {"results_checked": 500, "vetoed_trials": 50, "rejected_trials": 200, "paths_checked": 300,
                   "effective_accepts": 3000, "runs_with_caller_reusing_start_buffers": 100,
                   "runs_with_scripted_step_sizes": 60, "out_of_bounds_starts_without_accepted_step": 8, "runs_with_absorbed_model_time": 10},
        "assumptions": ["effective acceptance = controller accepted and (no penalty decision or penalty accepted), taken "
                        "from the penalty proxy and object identities, never from value equality"],
    }
