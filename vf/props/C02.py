"""C02 -- non-optimal terminal statuses are justified by the returned point.

Every result with a status other than Optimal produced by monitored solves on
infeasible, unbounded, degenerate and limited runs is judged: LocallyInfeasible by the
constraint-violation-stationarity oracle (sharp on the reference-transformed internal
problem at the traced final iterate, and slack-free in the user's space), Unbounded by
user-level feasibility and the scaled objective, IterationLimit by the counters,
TimeLimit by the virtual clock.
"""
import numpy as np

from .. import boot  # noqa: F401
from .. import cfg as C
from .. import mon, work
from .. import ref as R
from ..gen import rng_for

LEVEL = "exploration"
CASE_TIMEOUT = {"quick": 90, "thorough": 180}
TIME_LIMIT = 0.5


def gen_cases(tier, seed):
    rng = rng_for("C02cases", seed)
    cases = []
    n = 640 if tier == "quick" else 15000
    ninf_cap = 110 if tier == "quick" else 1800
    ninf = 0
    for k in range(n):
        fam = str(rng.choice(["INF", "UNB", "DEG", "NLP", "QP", "NARROW"], p=[0.22, 0.2, 0.1, 0.24, 0.16, 0.08]))
        if fam == "INF":
            if ninf >= ninf_cap:
                fam = "UNB"
            else:
                ninf += 1
        cfgd = C.sample(rng, {"control": C.CONTROL, "newton": ["Simplified", "Full", "ActiveSet"],
                              "penalty": ["DualNorm", "DualNorm", "Constant", "DualEquilibration", "ParetoDecrease",
                                          "ObjectiveFilter", "LagrangianFilter"],
                              "step_solver": C.STEP_SOLVER, "scaling": ["none", "none", "custom", "GradJac"]})
        case = work.mk_case(fam, [seed, k], cfgd, wspan=3)
        if fam == "INF":
            cfgd["iteration_limit"] = 500
            cfgd["control"] = str(rng.choice(["DistanceRatio", "DistanceRatio", "Exact", "ResiduumRatio"]))
            case["gopts"] = {"variant": int(rng.choice([1, 2, 2, 0, 3, 4, 5, 5, 6, 6]))}
            if rng.random() < 0.3:
                cfgd.update(C.rare_params(rng))
        elif fam == "UNB":
            cfgd["iteration_limit"] = 200
            cfgd["obj_lower_limit"] = float(rng.choice([-1e10, -1e3]))
            cfgd["control"] = str(rng.choice(["DistanceRatio", "Exact", "ResiduumRatio"]))
        elif fam == "NARROW":
            # feasible, narrow range row at a large offset: every status other than Optimal has to be justified
            cfgd["iteration_limit"] = 300
        else:
            cfgd["iteration_limit"] = int(rng.choice([0, 1, 2, 5, 17, 60]))
        if rng.random() < 0.4:
            case["deadline"] = int(rng.integers(0, 30))
        case["y0"] = "rand" if rng.random() < 0.3 else "none"
        cases.append(case)
    return cases


def run_case(case):
    cfgd = dict(case["cfg"])
    clock = None
    if "deadline" in case:
        if case["deadline"] % 2:
            # gradual clock: 0.5 s per deadline read, the limit is reached exactly at read `deadline`
            cfgd["time_limit"] = 0.5 * case["deadline"]
            clock = mon.VirtualClock(time_limit=0.5 * case["deadline"], display_bits=[0], ramp=0.5)
        else:
            cfgd["time_limit"] = TIME_LIMIT
            clock = mon.VirtualClock(expire_at=case["deadline"], time_limit=TIME_LIMIT, display_bits=[0])
    else:
        clock = mon.VirtualClock(display_bits=[0])
    p = work.prepare(dict(case, cfg=cfgd), record_sites=False, keep_args=False)
    out = mon.run_solve(p.rec, p.params, p.x0, p.y0, clock=clock)
    cls = work.outcome_class(out)
    res = {"viol": [], "ctr": {"solves": 1, "outcome_" + cls.split("@")[0]: 1, "family_" + case["fam"]: 1}}
    if out.result is None:
        return res
    r = out.result
    st = r.status.name
    spec = p.spec
    limit = p.params.iteration_limit
    key = work.cfg_key(case["cfg"], "control", "penalty", "scaling", "newton")
    key.update(family=case["fam"], status=st)

    def bad(kind, what, **kw):
        res["viol"].append({"what": what, "key": dict(key, kind=kind), "detail": kw})

    ntr = len(out.trace.trials)
    # (c) counters, for every result
    if limit is not None:
        if r.iterations > limit or ntr > limit:
            bad("over-limit", "iterations=%d / %d step computations exceed the limit %d" % (r.iterations, ntr, limit))
        if (st == "IterationLimit") != (r.iterations == limit):
            bad("iteration-limit-iff", "status %s with iterations=%d and iteration_limit=%d" % (st, r.iterations, limit))
    elif st == "IterationLimit":
        bad("iteration-limit-iff", "IterationLimit returned without a limit")
    if st == "Optimal":
        return res
    w = work.weights_of(out.solver, spec)
    P = p.P
    x = np.asarray(r.x, dtype=float)
    tol, atol, ltol = p.params.opt_tol, p.params.active_tol, p.params.local_infeas_tol
    sc = np.ldexp(1.0, w.cw)
    so = np.ldexp(1.0, w.ow)
    res["nt_keys"] = ["%s-%s" % (case["fam"], "-".join(map(str, case["gseed"])))]
    res["ctr"]["judged_" + st] = 1
    if spec.meta.get("variant") == "marginal-parallel-rows":
        res["ctr"]["marginal_parallel_rows_judged_" + st] = 1
    if st == "TimeLimit":
        if not clock.expired_seen:
            bad("time-limit-early", "TimeLimit returned although the clock never reached start + time_limit")
    elif st == "LocallyInfeasible":
        # sharp: internal problem at the traced final internal iterate
        D = R.internal_dense(P, w)
        T = out.trace.trials
        eff, _ = work.effective_accepts(out.trace)
        if T:
            zi, yi = T[0]["x"], T[0]["y"]
            for i, t in enumerate(T):
                if eff[i]:
                    zi, yi = t["xn"], t["yn"]
        else:
            zi, yi = R.to_internal_point(P, w, work.x0_array(p), work.y0_array(p))
        if np.shape(zi) != (D.n,):
            # the code under test works on an internal problem of another shape than the reformulation it documents
            # (slack per row with l < u): only the user-space oracle below can be applied
            bad("infeasible-internal-shape", "LocallyInfeasible decided on an internal problem with %d variables; the "
                "slack reformulation of the user's problem has %d" % (np.size(zi), D.n))
            dist, _ = R.row_distance(P, w, x)
            if not dist > tol - 2 * atol - 2 * ltol - 1e-13 * float(np.max(P.cabs(x) * sc)):
                bad("infeasible-user-distance", "LocallyInfeasible but the scaled distance of c(x) to [l,u] is only %.3e" % dist)
            return res
        cv = R.cons_violation(D, zi)
        lo, up, both = R.active_flags(D, zi, atol)
        g = D.J(zi).T.dot(D.c(zi))
        gmag = D.Jabs(zi).T.dot(D.cabs(zi))
        g = np.array(g, copy=True)
        g[lo] = np.minimum(g[lo], 0.0)
        g[up] = np.maximum(g[up], 0.0)
        gi = float(np.max(np.abs(g))) if g.size else 0.0
        res["maxes"] = {"infeasible_internal_violation_over_tol": cv / tol,
                        "infeasible_internal_stationarity_over_tol": gi / ltol if ltol > 0 else float(gi > 0)}
        if not cv > tol * (1 - 1e-9) - 1e-13 * float(np.max(D.cabs(zi))):
            bad("infeasible-not-violated", "LocallyInfeasible at a point whose (internal) constraint violation %.3e does "
                "not exceed the tolerance %.1e" % (cv, tol))
        if not gi <= ltol * (1 + 1e-9) + 1e-12 * float(np.max(gmag)):
            bad("infeasible-not-stationary", "LocallyInfeasible at a point that is not stationary for the constraint "
                "violation over the box: projected gradient %.3e > %.1e" % (gi, ltol))
        # slack-free restatement in the user's space
        dist, _ = R.row_distance(P, w, x)
        if not dist > tol - 2 * atol - 2 * ltol - 1e-13 * float(np.max(P.cabs(x) * sc)):
            bad("infeasible-user-distance", "LocallyInfeasible but the scaled distance of c(x) to [l,u] is only %.3e" % dist)
        gu, _ = R.user_infeas_stationarity(P, w, x, atol)
        sv = np.ldexp(1.0, w.vw)
        Js = (sc[:, None] * P.Jabs(x)) / sv[None, :]
        colsum = float(np.max(Js.sum(axis=0))) if Js.size else 0.0
        lim = ltol + (atol + 2 * ltol) * colsum + 1e-12 * float(np.max(gmag)) if gmag.size else ltol
        res["maxes"]["infeasible_user_stationarity_over_bound"] = gu / lim if lim > 0 else float(gu > 0)
        if not gu <= lim:
            bad("infeasible-user-stationarity", "LocallyInfeasible but the projected gradient of the violation measure in "
                "the user's space is %.3e > %.3e" % (gu, lim))
    elif st == "Unbounded":
        c = P.c(x) if spec.m else np.zeros(0)
        ctol = tol * (1 + 1e-6) / sc + 1e-13 * (np.abs(c) + (P.cabs(x) if spec.m else 0.0))
        if np.any(x < spec.var_lb) or np.any(x > spec.var_ub):
            bad("unbounded-bounds", "Unbounded returned at a point outside the variable bounds")
        if spec.m and (np.any(c < spec.cons_lb - ctol) or np.any(c > spec.cons_ub + ctol)):
            bad("unbounded-infeasible", "Unbounded returned at a point that violates the constraints by %.3e (scaled)"
                % float(np.max(np.maximum(spec.cons_lb - c, c - spec.cons_ub) * sc)))
        fs = so * P.f(x)
        if not fs <= p.params.obj_lower_limit + 1e-12 * so * P.fabs(x):
            bad("unbounded-objective", "Unbounded returned with scaled objective %.6e above the lower limit %.3e"
                % (fs, p.params.obj_lower_limit))
    if case["gseed"][-1] % 90 == 0:
        res["sample"] = {"spec": spec.summary(), "cfg": case["cfg"], "status": st, "iterations": r.iterations,
                         "deadline_read": case.get("deadline"), "x": x}
    return res


def finalize(agg, tier):
    return {
        "rule": "infeasible (quadratic row with no real solution, parallel rows with disjoint ranges, row unreachable in the "
                "box; n<=4), feasible problems with a range row that is narrow relative to its large offset (width 1e-3..0.4e-5 L at L = 1e4..1e7, box excluding the lower end of the range only), unbounded (linear / concave objective along a free ray, with and without a row), degenerate, "
                "NLP and QP specs x random (controller, Newton type, penalty, step solver, scaling) x iteration limits "
                "0/1/2/5/17/60 (500 for infeasible, 200 for unbounded) x obj_lower_limit -1e10/-1e3 x virtual-clock "
                "deadline at read 0..29 in 40% of the runs; every non-Optimal result is judged (and the counter rules for "
                "all results); distinct by spec seed",
        "floors": {"judged_LocallyInfeasible": 25, "judged_Unbounded": 25, "judged_IterationLimit": 100,
                   "judged_TimeLimit": 30, "family_NARROW": 30},
        "extra": {"note": "marginal-parallel-rows instances (k rows missing each other by 0.72..0.97 x 2e-6) are solvable to the default tolerance; any LocallyInfeasible verdict on them is judged like every other one"},
        "assumptions": ["user-space oracle for LocallyInfeasible allows the exact price of eliminating the slack: distance "
                        "> tol - 2 active_tol - 2 local_infeas_tol, projected gradient <= local_infeas_tol + (active_tol + 2 "
                        "local_infeas_tol) * max column sum of |J_s|; the internal oracle has no such allowance",
                        "fixed variables are not projected in the internal oracle (as in the repository's test; stricter "
                        "than the mathematical condition, so still sound for 'only at')"],
    }
