"""C17 -- linear solvers return the solution or fail loudly.

Calls the real `pygradflow.linear_solver.linear_solver(mat, type, symmetric).solve(...)`
on generated systems and judges the returned vector by a dense residual computation.
"""
import warnings

import numpy as np
import scipy.sparse as sps

from .. import boot  # noqa: F401
from ..gen import rng_for

LEVEL = "exploration"
BATCH = 40


def gen_cases(tier, seed):
    nb = 150 if tier == "quick" else 5000
    cases = [{"seed": [seed, i], "count": BATCH} for i in range(nb)]
    # larger systems (n up to 300): a few in the quick tier, many in the thorough tier
    nbig = 6 if tier == "quick" else 400
    cases += [{"seed": [seed, 100000 + i], "count": 6, "nmax": 300} for i in range(nbig)]
    return cases


def _orth(rng, n):
    q, r = np.linalg.qr(rng.normal(size=(n, n)))
    return q


COND_MODERATE = 1e6


def make_matrix(rng, kind, n):
    cond = 10.0 ** rng.uniform(0.0, 3.0)
    scale = 10.0 ** rng.uniform(-2.0, 2.0)
    sv = np.exp(rng.uniform(0.0, np.log(cond), size=n))
    if kind == "spd":
        U = _orth(rng, n)
        A = (U * sv) @ U.T
        A = 0.5 * (A + A.T)
    elif kind == "symindef":
        U = _orth(rng, n)
        sg = rng.choice([-1.0, 1.0], size=n)
        A = (U * (sv * sg)) @ U.T
        A = 0.5 * (A + A.T)
    elif kind == "kkt":
        # [[H + lam I, J'], [J, -delta I]] with sparse J
        nx = max(1, n - n // 3)
        m = n - nx
        U = _orth(rng, nx)
        H = (U * rng.uniform(1.0, 10.0, size=nx)) @ U.T
        J = rng.normal(size=(m, nx)) * (rng.random(size=(m, nx)) < 0.6)
        # dual regularisation from moderate to tiny-but-non-zero (as the symmetric step solver produces for long steps)
        delta = 10.0 ** rng.uniform(-2, 0) if rng.random() < 0.5 else 10.0 ** rng.uniform(-14, -2)
        A = np.block([[0.5 * (H + H.T), J.T], [J, -delta * np.eye(m)]])
    elif kind == "unsym":
        A = (_orth(rng, n) * sv) @ _orth(rng, n).T
    elif kind == "unsym_sparse":
        A = np.diag(sv * rng.choice([-1.0, 1.0], size=n))
        for _ in range(n):
            i, j = rng.integers(0, n, size=2)
            if i != j:
                A[i, j] = rng.normal() * 0.3 * min(abs(A[i, i]), abs(A[j, j]))
    else:
        raise ValueError(kind)
    return A * scale


def make_singular(rng, n):
    """Structurally singular matrices (structural rank < n)."""
    A = make_matrix(rng, "unsym", n)
    A[np.abs(A) < 0.05 * np.abs(A).max()] = 0.0
    how = str(rng.choice(["zero_row", "zero_col", "dup_structure", "all_zero"]))
    if n == 1:
        how = "all_zero"
    if how == "zero_row":
        A[int(rng.integers(0, n)), :] = 0.0
    elif how == "zero_col":
        A[:, int(rng.integers(0, n))] = 0.0
    elif how == "dup_structure":
        i, k = rng.choice(n, size=2, replace=False)
        j = int(rng.integers(0, n))
        A[i, :] = 0.0
        A[k, :] = 0.0
        A[i, j] = rng.normal() + 2.0
        A[k, j] = rng.normal() - 2.0
    else:
        A[:, :] = 0.0
    return A, how


def pack(A, fmt, dup=0):
    if dup:
        from ..gen import _pack

        return _pack(A, fmt, dup, shape=A.shape)
    return {"coo": sps.coo_matrix, "csr": sps.csr_matrix, "csc": sps.csc_matrix}[fmt](A)


def run_case(case):
    from pygradflow.linear_solver import LinearSolverError, linear_solver
    from pygradflow.params import LinearSolverType as T

    warnings.simplefilter("ignore")
    rng = rng_for("C17", *case["seed"])
    viol = []
    keys = []
    ctr = {}
    sample = None

    def bump(k, v=1):
        ctr[k] = ctr.get(k, 0) + v

    for k in range(case["count"]):
        n = int(rng.integers(1, 41)) if "nmax" not in case else int(rng.integers(41, case["nmax"] + 1))
        fmt = str(rng.choice(["coo", "csr", "csc"]))
        solver = str(rng.choice(["LU", "GMRES", "MINRES"]))
        r = rng.random()
        if r < 0.12:
            mode = "singular"
        elif r < 0.18:
            mode = "stagnate"
        else:
            mode = "regular"
        trans = bool(rng.random() < 0.4)
        guess = str(rng.choice(["none", "zero", "exact", "random", "other", "rhs_itself", "int_zero", "readonly", "kept"]))
        bscale = 10.0 ** rng.uniform(-4.0, 4.0)
        desc = {"n": n, "fmt": fmt, "solver": solver, "mode": mode, "trans": trans, "guess": guess}

        if mode == "singular":
            solver = "LU"
            A, how = make_singular(rng, n)
            b = rng.normal(size=n)
            try:
                x = linear_solver(pack(A, fmt), T.LU).solve(b, trans=trans)
                bump("singular_lu_returned")
                viol.append({"what": "LU returned a vector for a structurally singular matrix (%s), finite=%s"
                                     % (how, bool(np.all(np.isfinite(x)))),
                             "key": {"solver": "LU", "kind": "singular-not-reported", "how": how},
                             "detail": {"A": A, "b": b, "desc": desc}})
            except LinearSolverError:
                bump("singular_lu_raised")
                keys.append("sing-%s-%d-%d" % (how, n, k + 1000 * case["seed"][-1]))
            except Exception as ex:  # any other exception type is not the dedicated error
                viol.append({"what": "LU raised %s instead of LinearSolverError on a structurally singular matrix (%s)"
                                     % (type(ex).__name__, how),
                             "key": {"solver": "LU", "kind": "wrong-exception", "exc": type(ex).__name__},
                             "detail": {"A": A, "desc": desc}})
            continue

        if mode == "stagnate":
            # cyclic shift: restarted GMRES(20) makes no progress for n > 20 with b = e_1
            n = int(rng.integers(25, 41)) if "nmax" not in case else n
            A = np.roll(np.eye(n), 1, axis=0) * 10.0 ** rng.uniform(-1, 1)
            b = np.zeros(n)
            b[0] = bscale
            try:
                x = linear_solver(pack(A, fmt), T.GMRES).solve(b)
                res = np.linalg.norm(A @ x - b)
                bump("stagnate_gmres_returned")
                if not (res <= 1.01 * max(1e-5 * np.linalg.norm(b), 1e-8)):
                    viol.append({"what": "GMRES returned an unconverged vector (rel. residual %.2e) instead of raising"
                                         % (res / np.linalg.norm(b)),
                                 "key": {"solver": "GMRES", "kind": "unconverged-returned"},
                                 "detail": {"n": n, "b0": bscale}})
            except LinearSolverError:
                bump("stagnate_gmres_raised")
                keys.append("stag-%d-%d" % (n, k + 1000 * case["seed"][-1]))
            except Exception as ex:
                viol.append({"what": "GMRES raised %s instead of LinearSolverError" % type(ex).__name__,
                             "key": {"solver": "GMRES", "kind": "wrong-exception", "exc": type(ex).__name__}})
            continue

        if solver == "MINRES":
            kind = str(rng.choice(["spd", "symindef", "kkt"]))
            trans = False if rng.random() < 0.7 else trans
        else:
            kind = str(rng.choice(["spd", "symindef", "kkt", "unsym", "unsym_sparse"]))
        A = make_matrix(rng, kind, n)
        sym = kind in ("spd", "symindef", "kkt")
        b = rng.normal(size=n) * bscale
        if rng.random() < 0.1:
            b[rng.random(size=n) < 0.7] = 0.0
            if not b.any():
                b[0] = bscale
        Aop = A.T if trans else A
        xex = np.linalg.solve(Aop, b)
        init = None
        if guess == "zero":
            init = lambda: np.zeros(n)  # noqa: E731
        elif guess == "exact":
            init = lambda: np.copy(xex)  # noqa: E731
        elif guess == "other":
            # warm start with the solution of the other orientation (A^T x = b when solving A x = b and vice versa)
            xo = np.linalg.solve(A if trans else A.T, b)
            init = lambda: np.copy(xo)  # noqa: E731
            bump("guess_other_unsymmetric", int(not sym))
            bump("gmres_trans_guess_other_unsymmetric", int(not sym and trans and solver == "GMRES"))
        elif guess == "rhs_itself":
            init = lambda: b  # noqa: E731  (the "x0 = b" start: the guess is the caller's right-hand side array itself)
        elif guess == "int_zero":
            init = lambda: np.zeros(n, dtype=np.int64)  # noqa: E731
        elif guess == "readonly":
            gro = np.array(xex + rng.normal(size=n) * 1e-3 * np.linalg.norm(xex), copy=True)
            gro.flags.writeable = False
            init = lambda: gro  # noqa: E731
        elif guess == "kept":
            # the caller keeps its guess vector (and hands out the same object whenever asked)
            gkept = np.array(xex + rng.normal(size=n) * 1e-2 * np.linalg.norm(xex), copy=True)
            gkept_copy = np.copy(gkept)
            init = lambda: gkept  # noqa: E731
        elif guess == "random":
            g0 = xex + rng.normal(size=n) * np.linalg.norm(xex) * 10.0 ** rng.uniform(-6, 0)
            init = lambda: np.copy(g0)  # noqa: E731
        desc.update(kind=kind, bnorm=float(np.linalg.norm(b)), anorm=float(np.linalg.norm(A, 2)),
                    cond=float(np.linalg.cond(A)))
        Acopy = np.copy(A)
        bcopy = np.copy(b)
        dup = int(rng.choice([0, 0, 0, 1, 2]))
        bump("noncanonical_storage", int(bool(dup)))
        mat = pack(A, fmt, dup)
        try:
            slv = linear_solver(mat, getattr(T, solver), symmetric=sym) if solver != "LU" or sym \
                else linear_solver(mat, T.LU)
            x = slv.solve(b, trans=trans, initial_sol=init)
        except LinearSolverError:
            bump("regular_%s_raised" % solver)
            if solver == "LU":
                viol.append({"what": "LU raised LinearSolverError on a nonsingular matrix (cond %.1e)" % desc["cond"],
                             "key": {"solver": "LU", "kind": "spurious-failure"}, "detail": {"A": A, "b": b, "desc": desc}})
            continue
        except Exception as ex:
            viol.append({"what": "%s raised %s: %s" % (solver, type(ex).__name__, str(ex)[:100]),
                         "key": {"solver": solver, "kind": "wrong-exception", "exc": type(ex).__name__},
                         "detail": {"A": A, "b": b, "desc": desc}})
            continue
        bump("regular_%s_returned" % solver)
        bump("regular_%s_%s" % (solver, "trans" if trans else "forward"))
        bump("guess_" + guess)
        bump("fmt_" + fmt)
        keys.append("%s-%s-%s-%d-%d-%s" % (solver, kind, fmt, n, k + 1000 * case["seed"][-1], guess))
        if not np.array_equal(A, Acopy) or not np.array_equal(b, bcopy):
            viol.append({"what": "%s modified its input matrix or right-hand side (guess=%s)" % (solver, guess),
                         "key": {"solver": solver, "kind": "input-modified", "guess": guess}})
            b = bcopy   # judge the result against the system that was posed
        if guess == "kept" and not np.array_equal(gkept, gkept_copy):
            viol.append({"what": "%s modified the initial guess vector owned by the caller" % solver,
                         "key": {"solver": solver, "kind": "guess-modified"}})
        x = np.asarray(x, dtype=float)
        if x.shape != (n,) or not np.all(np.isfinite(x)):
            viol.append({"what": "%s returned a non-finite or mis-shaped vector" % solver,
                         "key": {"solver": solver, "kind": "non-finite"}, "detail": {"A": A, "b": b, "desc": desc}})
            continue
        if solver != "LU" and not desc["cond"] <= COND_MODERATE:
            # outside "moderate condition number" (near-singular KKT blocks: rank-deficient rows with a tiny dual
            # regularisation): the iterative solvers' residual is not judged
            bump("ill_conditioned_not_judged_%s" % solver)
            continue
        r = Aop @ x - b
        rn2 = float(np.linalg.norm(r))
        bn2 = float(np.linalg.norm(b))
        if solver == "LU":
            be = float(np.max(np.abs(r)) / (np.linalg.norm(Aop, np.inf) * np.max(np.abs(x)) + np.max(np.abs(b))))
            ctr["max_lu_backward_error_e18"] = max(ctr.get("max_lu_backward_error_e18", 0), int(be * 1e18))
            if not be <= 1e-12:
                viol.append({"what": "LU backward error %.2e > 1e-12 (cond %.1e, trans=%s)" % (be, desc["cond"], trans),
                             "key": {"solver": "LU", "kind": "residual", "trans": trans},
                             "detail": {"A": A, "b": b, "x": x, "desc": desc}})
        elif solver == "GMRES":
            lim = 1.01 * max(1e-5 * bn2, 1e-8) + 1e-13 * np.linalg.norm(Aop, 2) * np.linalg.norm(x)
            if not (rn2 <= lim or float(np.max(np.abs(r))) < 1e-8):
                viol.append({"what": "GMRES residual %.3e exceeds its stopping tolerance %.3e (trans=%s, guess=%s)"
                                     % (rn2, lim, trans, guess),
                             "key": {"solver": "GMRES", "kind": "residual", "trans": trans, "guess": guess},
                             "detail": {"A": A, "b": b, "x": x, "desc": desc}})
        else:  # MINRES: normwise relative residual within its stated 1e-5
            af = float(np.linalg.norm(A, "fro"))
            lim = 1e-4 * (af * float(np.linalg.norm(x)) + bn2)
            regime = "rhs-dominant" if bn2 > 10.0 * af else "balanced"
            bump("minres_" + regime)
            ctr["max_minres_ratio_e9"] = max(ctr.get("max_minres_ratio_e9", 0), int(1e9 * rn2 / (af * np.linalg.norm(x) + bn2)))
            if not rn2 <= lim:
                viol.append({"what": "MINRES returned an unconverged vector: ||r||=%.3e, ||r||/||b||=%.2e, "
                                     "normwise rel. residual %.2e > 1e-4 (||b||/||A||_F=%.1e, cond %.1e)"
                                     % (rn2, rn2 / bn2, rn2 / (af * np.linalg.norm(x) + bn2), bn2 / af, desc["cond"]),
                             "key": {"solver": "MINRES", "kind": "residual", "regime": regime},
                             "detail": {"A": A, "b": b, "x": x, "desc": desc}})
        if sample is None and n <= 4 and solver != "LU":
            sample = {"desc": desc, "A": A, "b": b, "x": x, "residual_norm": rn2}
    out = {"viol": viol[:6], "evals": case["count"], "nt_keys": keys, "ctr": ctr}
    mx = ctr.pop("max_lu_backward_error_e18", None)
    out["maxes"] = {}
    if mx is not None:
        out["maxes"]["lu_backward_error"] = mx * 1e-18
    mr = ctr.pop("max_minres_ratio_e9", None)
    if mr is not None:
        out["maxes"]["minres_normwise_residual"] = mr * 1e-9
    if sample:
        out["sample"] = sample
    return out


def finalize(agg, tier):
    return {
        "rule": "random square systems n in 1..40 (and a share with n in 41..300): SPD / symmetric indefinite / KKT-structured / unsymmetric dense and "
                "sparse with cond <= 1e3 and scale 1e-2..1e2, right-hand sides of norm 1e-4..1e4, COO/CSR/CSC input, "
                "forward and transposed solves, initial guess none/zero/exact/random/solution of the other orientation/the right-hand side array itself/integer zeros/a read-only vector/a vector the caller keeps; structurally singular systems "
                "(zero row, zero column, two rows sharing one column, all zero) for LU; cyclic shifts with n>=25 for "
                "GMRES stagnation; a system is non-trivial when the solver returned a vector that was then judged by "
                "the dense residual oracle, or raised the dedicated error on a singular/stagnating system; distinct by "
                "(solver, kind, format, n, index)",
        "floors": {"regular_LU_returned": 200, "regular_GMRES_returned": 200, "regular_MINRES_returned": 100,
                   "singular_lu_raised": 50, "stagnate_gmres_raised": 20, "regular_LU_trans": 30,
                   "regular_GMRES_trans": 30, "guess_other_unsymmetric": 40, "gmres_trans_guess_other_unsymmetric": 8},
        "assumptions": ["oracles: LU normwise backward error <= 1e-12; GMRES ||r||_2 <= 1.01*max(1e-5||b||,1e-8) or "
                        "||r||_inf < 1e-8 (its early-return rule); MINRES ||r||_2 <= 1e-4(||A||_F||x||+||b||) (its stated 1e-5 applies to the recurrence residual; the true residual drifts with n and cond, observed maximum 3.4e-5)",
                        "'moderate condition number' = cond_2 <= 1e6 for the iterative solvers (KKT-structured systems beyond that are "
                        "solved but not judged, counted as ill_conditioned_not_judged_*); LU is judged at every condition number",
                        "Cholesky/MA57/MUMPS/SSIDS solvers are not installed and not exercised"],
    }
