"""C01 -- Optimal status implies first-order optimality of the user's own problem.

Every result with status Optimal returned by monitored `Solver.solve` /
`IntegrationSolver.solve` runs is judged by the KKT oracle of `vf/ref.py`, evaluated in
the user's space from the problem spec (dense, independent of the solver's internals).
"""
import numpy as np

from .. import boot  # noqa: F401
from .. import cfg as C
from .. import mon, work
from .. import ref as R
from ..gen import rng_for

LEVEL = "exploration"
CASE_TIMEOUT = {"quick": 60, "thorough": 120}


def gen_cases(tier, seed):
    rng = rng_for("C01cases", seed)
    cases = []
    k = 0
    rows = C.pairwise(seed=seed + 1)
    fams = ["QP", "NLP", "QP", "NLP", "DEG", "QP"]
    reps = 3 if tier == "quick" else 12
    for rep in range(reps):
        for row in rows:
            fam = fams[k % len(fams)]
            cases.append(_case(rng, fam, [seed, k], dict(row)))
            k += 1
    nrand = 380 if tier == "quick" else 7000
    for _ in range(nrand):
        fam = str(rng.choice(["QP", "NLP", "DEG", "BAND", "NARROW"], p=[0.38, 0.38, 0.14, 0.05, 0.05]))
        c = C.sample(rng) if rng.random() < 0.6 else dict(C.DEFAULT, scaling=str(rng.choice(C.SCALING)))
        cases.append(_case(rng, fam, [seed, k], c))
        k += 1
    nint = 40 if tier == "quick" else 400
    for _ in range(nint):
        fam = str(rng.choice(["QP", "NLP"]))
        c = {"scaling": str(rng.choice(["none", "none", "custom", "GradJac"])),
             "rho": float(10.0 ** rng.uniform(-3, 0)), "iteration_limit": 60}
        cs = work.mk_case(fam, [seed, k], c, gopts={"n": int(rng.integers(1, 6))}, integration=True, wspan=2)
        cases.append(cs)
        k += 1
    return cases


def _case(rng, fam, gseed, cfgd):
    cfgd["iteration_limit"] = 400 if fam != "BAND" else 200
    if rng.random() < 0.3:
        cfgd["rho"] = float(10.0 ** rng.uniform(-6, 1))
    if rng.random() < 0.25:
        cfgd.update(C.rare_params(rng, allow_unvalidated=True))
    case = work.mk_case(fam, gseed, cfgd)
    case["y0"] = "rand" if rng.random() < 0.4 else "none"
    if fam == "BAND":
        case["gopts"] = {"n": int(rng.integers(50, 160))}
    elif fam in ("QP", "NLP") and rng.random() < 0.1:
        case["gopts"] = {"row_force": ["free"]}   # a row without any bound
    elif fam in ("QP", "NLP") and rng.random() < 0.25:
        case["gopts"] = {"row_scale_span": 2.5}   # rows of very different scale converge at different rates
    return case


def run_case(case):
    p = work.prepare(case, record_sites=False, keep_args=False)
    spec = p.spec
    ctr = {}
    res = {"viol": [], "ctr": ctr, "sets": {}}
    c = p.cfg
    if case.get("integration"):
        from pygradflow.integration.integration_solver import IntegrationSolver

        ctr["integration_runs"] = 1
        try:
            slv = IntegrationSolver(p.rec, p.params)
            r = slv.solve(p.x0, p.y0)
        except BaseException as ex:  # research-grade solver: exceptions are counted, not judged
            if isinstance(ex, (KeyboardInterrupt,)) or type(ex).__name__ == "CaseTimeout":
                raise
            ctr["integration_exception_" + type(ex).__name__] = 1
            return res
        ctr["integration_status_" + r.status.name] = 1
        if r.status.name != "Optimal":
            return res
        w = work.weights_of(slv, spec)
        which = "IntegrationSolver"
    else:
        out = mon.run_solve(p.rec, p.params, p.x0, p.y0)
        cls = work.outcome_class(out)
        ctr["outcome_" + cls] = 1
        if out.result is None or out.result.status.name != "Optimal":
            return res
        r = out.result
        w = work.weights_of(out.solver, spec)
        which = "Solver"
    fails = R.kkt_check(p.P, w, np.asarray(r.x, float), np.asarray(r.y, float), np.asarray(r.d, float),
                        p.params.opt_tol, p.params.active_tol)
    ctr["optimal_checked_" + which] = 1
    ctr["optimal_scaling_" + c["scaling"]] = 1
    for k in set(spec.row_kinds()):
        ctr["optimal_rows_" + k] = 1
    if case.get("gopts", {}).get("row_scale_span"):
        ctr["optimal_badly_scaled_rows"] = 1
    for k in set(spec.var_kinds()):
        ctr["optimal_vars_" + k] = 1
    for ax in ("newton", "step_solver", "linear", "control", "penalty", "active"):
        ctr["optimal_%s_%s" % (ax, c[ax])] = 1
    ctr["optimal_family_" + case["fam"]] = 1
    ctr["optimal_with_active_bound_multiplier"] = int(np.any(np.asarray(r.d) != 0))
    ctr["optimal_with_row_multiplier"] = int(np.any(np.abs(np.asarray(r.y)) > 1e-3)) if spec.m else 0
    res["nt_keys"] = ["%s-%s-%s" % (which, case["fam"], "-".join(map(str, case["gseed"])))]
    key = work.cfg_key(case["cfg"])
    key.update(solver=which, family=case["fam"])
    for f in fails:
        kind = f.split(":")[0].split(" ")[0].split("[")[0]
        res["viol"].append({"what": "%s returned Optimal but the KKT conditions of the user's problem fail: %s" % (which, f),
                            "key": dict(key, kind=kind),
                            "detail": {"x": r.x, "y": r.y, "d": r.d, "weights": {"vw": w.vw, "cw": w.cw, "ow": w.ow},
                                       "all_failures": fails}})
        break
    if which == "Solver" and spec.m and not fails and case["gseed"][-1] % 3 == 0 and p.inner.policy == "fresh":
        # parameter tracing: the caller changes data its constraint callback reads (the offsets of the rows), and solves
        # again on the same solver object, warm-started at the solution just returned; the new result is judged against
        # the problem as it is posed now
        rng2 = rng_for("C01trace", *case["gseed"])
        spec.e += 0.2 * rng2.normal(size=spec.m)          # (in place: both the user's problem and the oracle read it)
        ctr["retraced_solves"] = 1
        try:
            r2 = out.solver.solve(np.array(r.x, dtype=float, copy=True), np.array(r.y, dtype=float, copy=True))
        except Exception:
            r2 = None
        if r2 is not None and r2.status.name == "Optimal":
            ctr["retraced_solves_optimal"] = 1
            w2 = work.weights_of(out.solver, spec)
            f2 = R.kkt_check(p.P, w2, np.asarray(r2.x, float), np.asarray(r2.y, float), np.asarray(r2.d, float),
                             p.params.opt_tol, p.params.active_tol)
            if f2:
                res["viol"].append({"what": "after the row offsets were changed, the warm-started solve on the same solver "
                                            "returned Optimal (%d iterations) but the KKT conditions of the problem as now "
                                            "posed fail: %s" % (r2.iterations, f2[0]),
                                    "key": dict(key, kind="retrace-" + f2[0].split(":")[0].split(" ")[0].split("[")[0])})
    if case["gseed"][-1] % 211 == 0:
        res["sample"] = {"spec": spec.summary(), "cfg": case["cfg"], "solver": which, "x": r.x, "y": r.y, "d": r.d,
                         "iterations": r.iterations}
    return res


def finalize(agg, tier):
    return {
        "rule": "QP / NLP / degenerate / banded specs x pairwise covering array and random samples of Newton type, step "
                "solver, linear solver, step control, penalty policy, active-set rule and scaling (none, custom integer "
                "weights, GradJac, Nominal, KKT) x zero or random starting multipliers; IntegrationSolver on small QP/NLP "
                "with rho in 1e-3..1; only results with status Optimal are judged; distinct by (solver, spec seed)",
        "floors": {"optimal_checked_Solver": 150, "optimal_checked_IntegrationSolver": 8,
                   "optimal_scaling_none": 12, "optimal_scaling_custom": 12, "optimal_scaling_GradJac": 12,
                   "optimal_scaling_Nominal": 12, "optimal_scaling_KKT": 12,
                   "optimal_rows_eq0": 12, "optimal_rows_eq": 12, "optimal_rows_ge": 12, "optimal_rows_le": 12,
                   "optimal_rows_ranged": 12, "optimal_rows_freerow": 5, "optimal_badly_scaled_rows": 20, "retraced_solves_optimal": 15, "optimal_vars_fixed": 12, "optimal_vars_boxed": 12,
                   "optimal_with_active_bound_multiplier": 40, "optimal_with_row_multiplier": 40},
        "assumptions": ["tolerances: optimality tolerance times the exact power-of-two factor of the quantity, times "
                        "(1+1e-6), plus 1e-13 x magnitude for summation order; complementarity of rows additionally "
                        "allows active_tol (slack elimination)",
                        "IntegrationSolver exceptions are counted, not judged (C01 speaks about Optimal results only)"],
    }
