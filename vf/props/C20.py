"""C20 -- automatic scalings normalise magnitudes with exact powers of two.

Calls the real `Scaling.from_nominal_values / from_grad_jac / from_equilibrated_kkt` and
`create_scaling` / `Transformation` on generated data and applies the returned weights to
the input data in an independent ldexp computation.
"""
import warnings

import numpy as np
import scipy.sparse as sps

from .. import boot  # noqa: F401
from ..gen import rng_for

LEVEL = "exploration"
BATCH = 40


def gen_cases(tier, seed):
    nb = 75 if tier == "quick" else 3750
    return [{"seed": [seed, i], "count": BATCH} for i in range(nb)]


def rand_mag(rng, shape, lo, hi, density=1.0):
    v = 10.0 ** rng.uniform(lo, hi, size=shape) * rng.choice([-1.0, 1.0], size=shape)
    if density < 1.0:
        v = v * (rng.random(size=shape) < density)
    return v


def magnitude_class(rng):
    c = str(rng.choice(["wide", "below_one", "above_one", "narrow", "tiny", "huge"]))
    return c, {"wide": (-12, 12), "below_one": (-12, -0.01), "above_one": (0.01, 12), "narrow": (-1, 1),
               "tiny": (-12, -8), "huge": (8, 12)}[c]


def _is_int_array(a):
    return isinstance(a, np.ndarray) and a.dtype.kind == "i"


def pack(A, fmt, dup=False):
    if dup:
        # non-canonical storage: every entry split into two stored parts, a few explicit zeros
        from ..gen import _pack

        return _pack(A, fmt, dup, shape=np.asarray(A).shape)
    return {"coo": sps.coo_matrix, "csr": sps.csr_matrix, "csc": sps.csc_matrix}[fmt](A)


class DataProblem:
    """Built lazily (needs pygradflow.problem.Problem)."""


def make_problem(g, J, H, lb, ub, fmt, dup=False):
    from pygradflow.problem import Problem

    class P(Problem):
        def __init__(self):
            m = J.shape[0]
            kw = {"cons_lb": np.zeros(m), "cons_ub": np.zeros(m)} if m else {}
            super().__init__(lb, ub, **kw)

        def obj(self, x):
            return float(g @ x)

        def obj_grad(self, x):
            return np.copy(g)

        def cons(self, x):
            return J @ x + cvals0

        def cons_jac(self, x):
            return pack(J, fmt, dup)

        def lag_hess(self, x, y):
            return pack(H, fmt, dup)

    cvals0 = np.zeros(J.shape[0])
    return P()


def in_1_2(v):
    return (v >= 1.0) & (v < 2.0)


def run_case(case):
    from pygradflow.params import Params, ScalingType
    from pygradflow.scale import Scaling, create_scaling
    from pygradflow.transform import Transformation

    warnings.simplefilter("ignore")
    rng = rng_for("C20", *case["seed"])
    viol = []
    keys = []
    ctr = {}
    sample = None

    def bump(k, v=1):
        ctr[k] = ctr.get(k, 0) + v

    def bad(kind, what, detail, mclass, via):
        viol.append({"what": what, "key": {"scaling": kind, "class": mclass, "via": via, "dup": dup}, "detail": detail})

    for k in range(case["count"]):
        kind = ["Nominal", "GradJac", "KKT"][k % 3]
        mclass, (lo, hi) = magnitude_class(rng)
        n = int(rng.integers(1, 9))
        m = int(rng.integers(0, 6))
        fmt = str(rng.choice(["coo", "csr", "csc"]))
        dup = int(rng.choice([0, 0, 1, 2]))
        dens = float(rng.choice([1.0, 0.7, 0.4]))
        via = str(rng.choice(["direct", "create_scaling", "Transformation"]))
        tag = "%s-%s-%s-%d-%d-%d" % (kind, mclass, via, n, m, k + 1000 * case["seed"][-1])
        bump("kind_%s" % kind)
        bump("class_%s" % mclass)
        bump("via_%s" % via)
        bump("noncanonical_storage", int(bool(dup)))
        try:
            if kind == "Nominal":
                xv = rand_mag(rng, n, lo, hi, dens)
                cv = rand_mag(rng, m, lo, hi, dens)
                if via == "direct":
                    sc = Scaling.from_nominal_values(xv, cv)
                else:
                    # cons(x) must equal cv at the scaling point: c(x) = J x + c0 with J = 0
                    Jz = np.zeros((m, n))
                    prob = make_problem(np.ones(n), Jz, np.eye(n), np.full(n, -np.inf), np.full(n, np.inf), fmt)
                    prob.cons = lambda x, cv=cv: np.copy(cv)
                    params = Params(scaling_type=ScalingType.Nominal, scaling_primal=np.copy(xv))
                    sc = (create_scaling(prob, params, params.scaling_primal, None) if via == "create_scaling"
                          else Transformation(prob, params).scaling)
                vw, cw = sc.var_weights, sc.cons_weights
                if not (_is_int_array(vw) and _is_int_array(cw)):
                    bad(kind, "weights are not integer arrays (%s, %s)" % (getattr(vw, "dtype", None), getattr(cw, "dtype", None)),
                        {}, mclass, via)
                    continue
                sx = np.abs(np.ldexp(xv, vw))
                scv = np.abs(np.ldexp(cv, cw))
                okx = in_1_2(sx) | (xv == 0)
                okc = in_1_2(scv) | (cv == 0)
                bump("nominal_values_checked", int((xv != 0).sum() + (cv != 0).sum()))
                if not (okx.all() and okc.all()):
                    bad(kind, "scaled nominal magnitudes outside [1,2): vars %s cons %s" % (sx[~okx], scv[~okc]),
                        {"x": xv, "c": cv, "vw": vw, "cw": cw}, mclass, via)
                keys.append(tag)
                continue

            g = rand_mag(rng, n, lo, hi, dens if rng.random() < 0.5 else 1.0)
            J = rand_mag(rng, (m, n), lo, hi, dens)
            intdata = bool(rng.random() < 0.2)
            if intdata:
                # integer coefficients handed over with an integer dtype (next to gradients of any magnitude)
                idt = [np.int64, np.int32, np.int8][int(rng.integers(0, 3))]
                J = (rng.integers(-9, 10, size=(m, n)) * (rng.random(size=(m, n)) < dens)).astype(idt)
                bump("integer_dtype_%s" % np.dtype(idt).name)
                dup = 0
                bump("integer_dtype_jacobians")
            if kind == "GradJac":
                if via == "direct":
                    sc = Scaling.from_grad_jac(np.copy(g), pack(J, fmt, dup) if m or rng.random() < 0.5 else None)
                else:
                    prob = make_problem(g, J, np.eye(n), np.full(n, -np.inf), np.full(n, np.inf), fmt, dup)
                    params = Params(scaling_type=ScalingType.GradJac, scaling_primal=rng.normal(size=n))
                    sc = (create_scaling(prob, params, params.scaling_primal, None) if via == "create_scaling"
                          else Transformation(prob, params).scaling)
                vw, cw, ow = sc.var_weights, sc.cons_weights, sc.obj_weight
                if not (_is_int_array(vw) and _is_int_array(cw)):
                    bad(kind, "weights are not integer arrays", {}, mclass, via)
                    continue
                gs = np.abs(np.ldexp(g, ow - vw))
                okg = in_1_2(gs) | (g == 0)
                bump("gradjac_grad_components_checked", int((g != 0).sum()))
                if not okg.all():
                    bad(kind, "scaled gradient magnitudes outside [1,2): %s" % gs[~okg], {"g": g, "vw": vw}, mclass, via)
                if m and cw.shape == (m,):
                    Js = np.abs(np.ldexp(J, cw[:, None] - vw[None, :]))
                    rmax = Js.max(axis=1)
                    nzrow = (J != 0).any(axis=1)
                    okr = in_1_2(rmax) | ~nzrow
                    bump("gradjac_rows_checked", int(nzrow.sum()))
                    bump("gradjac_rows_all_below_one", int(((np.abs(J).max(axis=1) < 1) & nzrow).sum()))
                    if not okr.all():
                        bad(kind, "largest scaled entry of Jacobian rows outside [1,2): %s" % rmax[~okr],
                            {"g": g, "J": J, "vw": vw, "cw": cw}, mclass, via)
                elif m:
                    bad(kind, "constraint weights have shape %s for %d rows" % (cw.shape, m), {}, mclass, via)
                keys.append(tag)
                if sample is None and m and n <= 3:
                    sample = {"scaling": kind, "class": mclass, "via": via, "grad": g, "jac": J,
                              "var_weights": vw, "cons_weights": cw}
                continue

            # KKT
            Hs = rand_mag(rng, (n, n), lo, hi, dens)
            H = np.triu(Hs) + np.triu(Hs, 1).T
            if intdata:
                Hi = rng.integers(-9, 10, size=(n, n)) * (rng.random(size=(n, n)) < dens)
                H = (np.triu(Hi) + np.triu(Hi, 1).T).astype(np.int64)
            # how the Hessian is stored: full symmetric, one triangle only (the convention of several NLP codes), or an
            # unsymmetric approximation -- the statement is about the columns of the matrix that is handed over
            storage = str(rng.choice(["full", "full", "lower", "upper", "unsym"]))
            if storage == "lower":
                H = np.tril(H)
            elif storage == "upper":
                H = np.triu(H)
            elif storage == "unsym" and not intdata:
                H = Hs
            bump("kkt_hessian_storage_" + storage)
            try:
                if via == "direct":
                    sc = Scaling.from_equilibrated_kkt(pack(H, fmt, dup), pack(J, fmt, dup))
                else:
                    prob = make_problem(g, J, H, np.full(n, -np.inf), np.full(n, np.inf), fmt, dup)
                    params = Params(scaling_type=ScalingType.KKT, scaling_primal=rng.normal(size=n),
                                    scaling_dual=rng.normal(size=m))
                    sc = (create_scaling(prob, params, params.scaling_primal, params.scaling_dual)
                          if via == "create_scaling" else Transformation(prob, params).scaling)
            except Exception as ex:
                if type(ex) is Exception and "Equilibration failed to converge" in str(ex):
                    bump("kkt_not_converged")
                    continue
                raise
            bump("kkt_returned")
            vw, cw, ow = sc.var_weights, sc.cons_weights, sc.obj_weight
            if not (_is_int_array(vw) and _is_int_array(cw)):
                bad(kind, "weights are not integer arrays", {}, mclass, via)
                continue
            K = np.block([[H, J.T], [J, np.zeros((m, m))]])
            w = np.concatenate([-vw, cw]).astype(np.int64)
            Ks = np.abs(np.ldexp(K, w[:, None] + w[None, :]))
            cs = Ks.sum(axis=0)
            nzcol = (K != 0).any(axis=0)
            okc = ((cs >= 1.0) & (cs < 4.0)) | ~nzcol
            bump("kkt_columns_checked", int(nzcol.sum()))
            bump("kkt_columns_sum_below_one_before", int(((np.abs(K).sum(axis=0) < 1) & nzcol).sum()))
            if not okc.all():
                bad(kind, "absolute column sums of the scaled KKT matrix outside [1,4): %s" % cs[~okc],
                    {"H": H, "J": J, "vw": vw, "cw": cw}, mclass, via)
            keys.append(tag)
        except Exception as ex:
            bad(kind, "%s raised %s: %s" % (kind, type(ex).__name__, str(ex)[:120]),
                {"exc": type(ex).__name__}, mclass, via)
            viol[-1]["key"]["exc"] = type(ex).__name__
    out = {"viol": viol[:6], "evals": case["count"], "nt_keys": keys, "ctr": ctr}
    if sample:
        out["sample"] = sample
    return out


def finalize(agg, tier):
    return {
        "rule": "random nominal vectors, gradients, Jacobians (m<=5, n<=8) and Hessians (stored as full symmetric matrices, as one triangle only, or unsymmetric) with entries "
                "+-10^[lo,hi] for six magnitude classes (wide -12..12, all below one, all above one, narrow, tiny, huge), "
                "densities 1/0.7/0.4, COO/CSR/CSC, scalings obtained directly from the static constructors, from "
                "create_scaling and from Transformation; non-trivial = the scaling was returned and its weights were "
                "applied to the data by the ldexp oracle; distinct by (kind, class, route, sizes, index)",
        "floors": {"nominal_values_checked": 1000, "gradjac_rows_checked": 500, "gradjac_rows_all_below_one": 100,
                   "kkt_columns_checked": 1000, "kkt_columns_sum_below_one_before": 100, "kkt_returned": 300,
                   "integer_dtype_jacobians": 100, "kkt_hessian_storage_lower": 60, "kkt_hessian_storage_unsym": 60},
        "assumptions": ["zero values / zero rows / zero columns are excepted as in the statement; "
                        "'Equilibration failed to converge' is counted, not judged ('whenever it returns')"],
    }
