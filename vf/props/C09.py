"""C09 -- observation does not perturb the computation.

Differential monitor: a bare run and runs that differ from it only in observer settings
(log level with a real formatting handler, display schedule scripted through the virtual
clock, display interval, number of registered callbacks, collect_path, report_rcond) are
compared byte-wise: every trial record, status, counters, x, y, d.
"""
import itertools

import random
import zlib

import numpy as np

from .. import boot  # noqa: F401
from .. import cfg as C
from .. import mon, work
from ..gen import rng_for
from .C06 import Logging

LEVEL = "exploration"
CASE_TIMEOUT = {"quick": 120, "thorough": 240}
SHARDS_PER_JOB = 6
FAMS = ["QP", "NLP", "NLP", "DEG", "NCVX", "UNB"]


def gen_cases(tier, seed):
    rng = rng_for("C09cases", seed)
    cases = []
    n = 110 if tier == "quick" else 3000
    for k in range(n):
        fam = str(rng.choice(FAMS))
        cfgd = C.sample(rng)
        short = rng.random() < 0.3
        cfgd["iteration_limit"] = int(rng.integers(2, 7)) if short else int(rng.choice([15, 40]))
        if rng.random() < 0.3:
            cfgd["rho"] = float(10.0 ** rng.uniform(-4, 0))
        if rng.random() < 0.25:
            cfgd.update(C.rare_params(rng, allow_unvalidated=False))
        if cfgd.get("control") == "Fixed" and k % 2 == 0:
            # a fixed step size below the floor of the adaptive controllers (the fixed controller does not clamp)
            rf = rng_for("C09fixed", seed, k)
            cfgd["lamb_init"] = float(10.0 ** rf.uniform(-3, -1))
            cfgd["lamb_min"] = cfgd["lamb_init"] * float(10.0 ** rf.uniform(0.5, 2.0))
        gopts = {}
        if fam == "DEG" and rng.random() < 0.5:
            gopts = {"variant": int(rng.choice([2, 3]))}  # all-fixed / unconstrained: empty reduced systems, no bound columns
        case = work.mk_case(fam, [seed, k], cfgd, gopts=gopts)
        case["y0"] = "rand" if rng.random() < 0.4 else "none"
        if fam in ("QP", "NLP") and rng.random() < 0.35:
            # restricted domain: every evaluation outside a ball around the start is non-finite
            case["region_radius"] = float(rng.uniform(0.3, 2.5))
            # either everything fails outside the ball, or only the objective value (like x - log x, whose
            # derivatives stay finite): then only reporting ever evaluates the failing quantity at rejected points
            case["region_components"] = ["obj"] if rng.random() < 0.5 else ["obj", "obj_grad", "cons", "cons_jac"]
            case["cfg"]["lamb_init"] = float(10.0 ** rng.uniform(-3, 0))   # long first steps overshoot
        elif fam in ("QP", "NLP") and rng.random() < 0.4:
            # the user's matrices reach the iterates as they are (no scaling, equality rows only) and share one
            # non-canonically ordered sparsity structure: anything that "only looks" at a matrix but rearranges its
            # storage shows up in every later matrix
            cfgd["scaling"] = "none"
            case["gopts"] = {"row_force": ["eq"] * 12}
            case["policy"] = "shared"
            case["fmt"] = str(rng.choice(["coo", "csr", "csc"]))
            case["y0"] = "rand"
        if rng.random() < 0.2 and cfgd.get("active") != "Explicit":
            cfgd["active_set_method"] = "half"    # user rule tau = 0.5 / lamb (reads the controller's lambda)
        case["exhaustive_display"] = bool(short)
        case["nvariants"] = 10 if tier == "quick" else 14
        cases.append(case)
    return cases


def observers(case, rng, ntrials):
    """List of observer settings to compare against the bare run."""
    out = []
    if case["exhaustive_display"] and ntrials <= 7:
        for bits in itertools.product([0, 1], repeat=max(1, ntrials)):
            if any(bits):
                out.append({"log": str(rng.choice(["INFO", "DEBUG"])), "bits": list(bits), "interval": 0.1,
                            "callbacks": 0, "path": False, "rcond": False, "exhaustive": True})
    out.append({"log": "DEBUG", "bits": [1], "interval": 0.1, "callbacks": 0, "path": False, "rcond": False})
    out.append({"log": "DEBUG", "bits": [1], "interval": 0.0, "callbacks": 3, "path": True, "rcond": True})
    out.append({"log": "INFO", "bits": [1], "interval": 1e-16, "callbacks": 1, "path": False, "rcond": True})
    out.append({"log": "CRITICAL", "bits": [0], "interval": 0.1, "callbacks": 0, "path": False, "rcond": True})
    out.append({"log": "CRITICAL", "bits": [0], "interval": 0.1, "callbacks": 3, "path": True, "rcond": False})
    for _ in range(case["nvariants"] - 5):
        out.append({"log": str(rng.choice(["CRITICAL", "INFO", "DEBUG"])),
                    "bits": [int(b) for b in rng.integers(0, 2, size=int(rng.integers(1, 9)))],
                    "interval": float(rng.choice([0.0, 1e-16, 0.1])), "callbacks": int(rng.choice([0, 1, 3])),
                    "path": bool(rng.random() < 0.5), "rcond": bool(rng.random() < 0.5)})
    return out


def one_run(case, obs):
    cfgd = dict(case["cfg"])
    if obs:
        cfgd["collect_path"] = obs["path"]
        cfgd["report_rcond"] = obs["rcond"]
    fault = None
    if "region_radius" in case:
        p0 = work.prepare(dict(case, cfg=cfgd), record_sites=False, keep_args=False)
        x0r = work.x0_array(p0)
        rad = case["region_radius"]
        fault = mon.Fault(pred=lambda x, x0r=x0r, rad=rad: float(np.linalg.norm(x - x0r)) > rad,
                          components=case.get("region_components", ["obj", "obj_grad", "cons", "cons_jac"]))
    p = work.prepare(dict(case, cfg=cfgd), fault=fault, record_sites=False, keep_args=False)
    # process-global random state a user's callbacks may draw from (seeded by the "user" before the solve)
    np.random.seed(20261002)
    random.seed(20261002)
    if obs:
        p.params.display_interval = obs["interval"]
        clock = mon.VirtualClock(display_bits=obs["bits"], display_interval=obs["interval"])
        with Logging(obs["log"]) as lg:
            out = mon.run_solve(p.rec, p.params, p.x0, p.y0, clock=clock, extra_callbacks=obs["callbacks"])
            out.log_chars = len(lg.stream.getvalue())
    else:
        clock = mon.VirtualClock(display_bits=[0], display_interval=0.1)
        out = mon.run_solve(p.rec, p.params, p.x0, p.y0, clock=clock)
        out.log_chars = 0
    out.clock = clock
    out.faults_fired = len(fault.fired) if fault else 0
    st = np.random.get_state()
    out.rng_state = (zlib.crc32(st[1].tobytes()), int(st[2]), zlib.crc32(repr(random.getstate()).encode()))
    return p, out


def run_case(case):
    rng = rng_for("C09obs", *case["gseed"])
    res = {"viol": [], "ctr": {}}
    ctr = res["ctr"]

    def bump(k, v=1):
        ctr[k] = ctr.get(k, 0) + v

    p0, bare = one_run(case, None)
    if bare.construct_exc is not None:
        bump("base_unusable")
        return res
    bump("bare_runs")
    T0 = bare.trace.trials
    key0 = work.cfg_key(case["cfg"], "control", "newton", "step_solver", "linear")
    key0["family"] = case["fam"]
    nt = 0
    evals = 1
    for obs in observers(case, rng, len(T0)):
        p, out = one_run(case, obs)
        evals += 1
        bump("observed_runs")
        bump("log_" + obs["log"])
        bump("displayed_rows", out.clock.displayed)
        bump("rcond_runs", int(obs["rcond"]))
        bump("path_runs", int(obs["path"]))
        bump("callback_invocations", getattr(out.solver, "extra_calls", 0) if out.solver else 0)
        bump("exhaustive_display_patterns", int(bool(obs.get("exhaustive"))))
        bump("log_chars", out.log_chars)
        bump("observed_runs_restricted_domain", int("region_radius" in case))
        bump("observed_runs_shared_structure", int(case.get("policy") == "shared"))
        bump("non_finite_evaluations_in_observed_runs", out.faults_fired)
        key = dict(key0, log=obs["log"], rcond=obs["rcond"], path=obs["path"], displayed=bool(out.clock.displayed))

        def bad(kind, what):
            if len(res["viol"]) < 5:
                res["viol"].append({"what": what + " (observer settings %s)" % obs, "key": dict(key, kind=kind),
                                    "detail": {"observer": obs}})

        if (out.result is None) != (bare.result is None):
            if out.result is None:
                bad("observed-run-failed", "the observed run raised %s at %s: %s while the bare run returned %s"
                    % (type(out.exc).__name__, out.site, str(out.exc)[:80], bare.result.status.name))
                res["viol"][-1]["key"].update(exc=type(out.exc).__name__, site=out.site)
            else:
                bad("bare-run-failed", "the bare run raised %s but the observed run returned a result" % type(bare.exc).__name__)
            continue
        bump("global_random_states_compared")
        if out.rng_state != bare.rng_state:
            bad("global-random-state", "the process-global random generators (numpy.random / random) are in a different "
                "state after the observed run than after the bare run: observation consumed or re-seeded randomness that "
                "callbacks drawing from them depend on")
            continue
        T = out.trace.trials
        if len(T) != len(T0) or not all(work.same_trial(a, b) for a, b in zip(T, T0)):
            i = next((i for i, (a, b) in enumerate(zip(T, T0)) if not work.same_trial(a, b)), min(len(T), len(T0)))
            bad("trajectory", "trajectory differs from the bare run at trial step %d (%d vs %d steps)" % (i, len(T), len(T0)))
            continue
        if out.result is not None:
            a, b = out.result, bare.result
            if a.status != b.status or a.iterations != b.iterations or a.num_accepted_steps != b.num_accepted_steps:
                bad("summary", "status/counters differ: %s/%d/%d vs %s/%d/%d" % (a.status.name, a.iterations,
                    a.num_accepted_steps, b.status.name, b.iterations, b.num_accepted_steps))
            elif not (np.array_equal(a.x, b.x) and np.array_equal(a.y, b.y) and np.array_equal(a.d, b.d)):
                bad("solution", "returned x/y/d differ from the bare run")
        else:
            if type(out.exc) is not type(bare.exc) or str(out.exc) != str(bare.exc):
                bad("exception", "both runs raised, but differently: %r vs %r" % (out.exc, bare.exc))
        nt += 1
    res["evals"] = evals
    res["nt_n"] = nt
    if case["gseed"][-1] % 25 == 0:
        res["sample"] = {"spec": p0.spec.summary(), "cfg": case["cfg"], "bare_outcome": work.outcome_class(bare),
                         "trial_steps": len(T0), "observer_variants": evals - 1}
    return res


def finalize(agg, tier):
    return {
        "rule": "bare run (log CRITICAL, no displayed row, no user callbacks, no path, no rcond) vs observed runs of the same "
                "(spec, algorithmic configuration, start): fixed extreme settings (DEBUG + every row displayed, interval 0 / "
                "1e-16, 3 callbacks + path + rcond, ...) plus random ones; for base runs of <= 7 trial steps all 2^T-1 "
                "non-empty displayed-row patterns are enumerated through the virtual clock; a third of the QP/NLP base problems have a restricted domain (every evaluation outside a ball around the start is non-finite, long first steps) so that displayed rows touch failing points; an observed run is "
                "non-trivial when its trajectory could be compared step by step; (base run, observer setting) pairs are "
                "distinct by construction",
        "floors": {"observed_runs": 800, "displayed_rows": 2000, "log_DEBUG": 200, "rcond_runs": 200, "path_runs": 200,
                   "callback_invocations": 2000, "exhaustive_display_patterns": 100, "log_chars": 100000,
                   "observed_runs_restricted_domain": 100, "non_finite_evaluations_in_observed_runs": 200,
                   "global_random_states_compared": 800, "observed_runs_shared_structure": 60},
        "assumptions": ["state that lives outside the solver but takes part in a user's computation is compared too: the process-global numpy.random / random generators are seeded before every run and must be in the same state after an observed run as after the bare run",
                        "the display schedule is the only wall-clock dependence of a solve; it is scripted through the "
                        "virtual clock (pygradflow.timer.time)"],
    }
