"""C04 -- the internally solved problem is an exact reformulation of the user's problem.

`Transformation(problem, params).trans_problem` (and the iterate / solution mappings) is
evaluated next to `ref.RefTransform`, which composes *another instance* of the same
user problem with the power-of-two change of variables and the slack/offset embedding
in exact ldexp arithmetic.  Everything is compared bit for bit.
"""
import warnings

import numpy as np

from .. import boot  # noqa: F401
from .. import cfg as C
from .. import work
from ..gen import SpecProblem, make_spec, rng_for
from ..ref import RefTransform, Weights

LEVEL = "exploration"
BATCH = 25
FAMS = ["QP", "NLP", "NLP", "DEG", "INF", "UNB", "NCVX", "BAND", "INTQP", "INTQP", "F32QP"]


def gen_cases(tier, seed):
    nb = 120 if tier == "quick" else 8000
    return [{"seed": [seed, i], "count": BATCH} for i in range(nb)]


def _same(a, b):
    a = np.asarray(a, dtype=float)
    b = np.asarray(b, dtype=float)
    return a.shape == b.shape and np.array_equal(a, b, equal_nan=True)


def _range_bad(v):
    """overflow / underflow happened in an ldexp result?"""
    v = np.asarray(v, dtype=float)
    tiny = np.finfo(float).tiny
    return bool(np.any(np.isinf(v)) or np.any((v != 0) & (np.abs(v) < tiny)))


def test_point(rng, lb, ub):
    n = lb.shape[0]
    z = np.zeros(n)
    for j in range(n):
        l, u = lb[j], ub[j]
        mode = rng.integers(0, 5)
        lo = l if np.isfinite(l) else (u - 4.0 if np.isfinite(u) else -2.0)
        hi = u if np.isfinite(u) else (l + 4.0 if np.isfinite(l) else 2.0)
        if mode == 0 and np.isfinite(l):
            z[j] = l
        elif mode == 1 and np.isfinite(u):
            z[j] = u
        elif mode == 2:
            z[j] = lo - abs(rng.normal()) * (1.0 + abs(lo))  # outside
        elif mode == 3:
            z[j] = hi + abs(rng.normal()) * (1.0 + abs(hi))
        else:
            z[j] = rng.uniform(lo, hi) if hi > lo else lo
    return z


def run_case(case):
    from pygradflow.params import Params
    from pygradflow.transform import Transformation

    warnings.simplefilter("ignore")
    rng = rng_for("C04", *case["seed"])
    viol = []
    keys = []
    ctr = {}
    sample = None

    def bump(k, v=1):
        ctr[k] = ctr.get(k, 0) + v

    for k in range(case["count"]):
        fam = FAMS[int(rng.integers(0, len(FAMS)))]
        if fam == "BAND" and rng.random() < 0.8:
            fam = "NLP"
        gseed = case["seed"] + [k]
        spec = make_spec(fam, gseed)
        if fam in ("QP", "NLP") and rng.random() < 0.12:
            # rows without any bound (l = -inf, u = +inf): a slack with infinite bounds
            spec = make_spec(fam, gseed, row_force=["free", "free"])
            bump("specs_with_free_rows", int("freerow" in spec.row_kinds()))
        if fam == "BAND" and spec.n > 120:
            spec = make_spec(fam, gseed, n=int(rng.integers(50, 120)))
        fmt = str(rng.choice(["coo", "csr", "csc"]))
        dup = int(rng.choice([0, 0, 1, 2]))
        sc = str(rng.choice(["none", "custom", "custom", "custom_extreme", "GradJac", "Nominal", "KKT"]))
        y0 = rng.normal(size=spec.m) if rng.random() < 0.7 else None
        spec.y0 = y0
        key = {"scaling": sc, "fmt": fmt, "dup": dup, "family": fam}

        def bad(comp, what, detail=None):
            kk = dict(key)
            kk["component"] = comp
            viol.append({"what": "%s: %s" % (comp, what), "key": kk,
                         "detail": dict(detail or {}, fam=fam, gseed=gseed, scaling=sc, fmt=fmt, dup=dup)})

        # the problem handed to pygradflow may return cached objects (one constant object / memoised per point):
        # the same object is then transformed again and again
        policy = str(rng.choice(["fresh", "fresh", "const", "memo"]))
        if fam in ("INTQP", "F32QP") and rng.random() < 0.7:
            dup = key["dup"] = 0   # (narrow dtypes are only used with canonical storage)
        # gradient / constraint values handed over in single precision in a share of the single-precision problems
        vdt = "float32" if fam == "F32QP" and rng.random() < 0.5 else None
        if fam == "INTQP" and rng.random() < 0.3:
            vdt = "int64"   # callbacks written with integer arithmetic throughout
            bump("int64_vectors")
        prob = SpecProblem(spec, fmt=fmt, dup=dup, policy=policy, vec_dtype=vdt)
        prob2 = SpecProblem(spec, fmt=fmt, dup=dup, vec_dtype=vdt)
        bump("policy_" + policy)
        if spec.m and not dup:
            bump("jacobian_dtype_%s" % prob2.cons_jac(np.array(spec.x0, dtype=float)).dtype)
        if vdt:
            bump("float32_vectors")
        weights = None
        if sc in ("custom", "custom_extreme"):
            span = 40 if sc == "custom" else 500
            weights = C.scaling_weights(rng, spec.n, spec.m, span=span, degenerate=True)
            if sc == "custom":
                weights["ow"] = int(rng.integers(-10, 11))
        try:
            params = C.make_params({"scaling": "custom" if weights else sc}, spec, weights=weights)
            if weights and rng.random() < 0.3:
                # history of the Scaling object: it was created with other weights and used (points mapped to and fro)
                # before the caller adjusted its weights in place to the ones under test
                scl0 = params.scaling
                final = (np.array(scl0.var_weights, copy=True), np.array(scl0.cons_weights, copy=True), int(scl0.obj_weight))
                scl0.var_weights[:] = final[0] + rng.integers(-3, 4, size=spec.n)
                scl0.cons_weights[:] = final[1] + rng.integers(-3, 4, size=spec.m)
                scl0.obj_weight = final[2] + int(rng.integers(-3, 4))
                try:
                    T0 = Transformation(prob2, params)
                    it0 = T0.create_transformed_iterate(np.copy(spec.x0), None if y0 is None else np.copy(y0))
                    T0.restore_sol(np.copy(it0.x), np.copy(it0.y), np.zeros_like(it0.x))
                except Exception:
                    pass
                scl0.var_weights[:] = final[0]
                scl0.cons_weights[:] = final[1]
                scl0.obj_weight = final[2]
                bump("scaling_objects_adjusted_after_use")
            T = Transformation(prob, params)
        except Exception as ex:
            if type(ex) is Exception and "Equilibration failed" in str(ex):
                bump("kkt_equilibration_failed")
                continue
            bad("construct", "Transformation raised %s: %s" % (type(ex).__name__, str(ex)[:100]))
            continue
        scl = T.scaling
        if scl is None:
            w = Weights.zero(spec.n, spec.m)
        else:
            w = Weights(np.asarray(scl.var_weights), np.asarray(scl.cons_weights), int(scl.obj_weight))
        R = RefTransform(prob2, w)
        tp = T.trans_problem
        bump("scaling_" + sc)
        if weights:
            bump("custom_weights_stored_as_%s" % weights.get("dtype", "int64"))
            bump("custom_weights_rows_unscaled_objective_scaled", int(not any(weights["cw"]) and weights["ow"] != 0 and spec.m > 0))
            bump("custom_weights_variables_unscaled", int(not any(weights["vw"])))
        bump("fmt_%s%s" % (fmt, "+dup%d" % dup if dup else ""))
        fpe = False
        # ---- structure and bounds
        if tp.num_vars != R.n + R.ns or tp.num_cons != R.m:
            bad("shape", "internal problem has %d vars / %d rows, reference %d / %d"
                % (tp.num_vars, tp.num_cons, R.n + R.ns, R.m))
            continue
        if _range_bad(R.var_lb[np.isfinite(np.concatenate([spec.var_lb, spec.cons_lb[R.S]]))]) or \
                _range_bad(R.var_ub[np.isfinite(np.concatenate([spec.var_ub, spec.cons_ub[R.S]]))]):
            fpe = True
        if not fpe:
            if not (_same(tp.var_lb, R.var_lb) and _same(tp.var_ub, R.var_ub)):
                bad("bounds", "internal variable bounds differ from reference",
                    {"lb": tp.var_lb, "ref_lb": R.var_lb, "ub": tp.var_ub, "ref_ub": R.var_ub})
            if not (_same(tp.cons_lb, np.zeros(R.m)) and _same(tp.cons_ub, np.zeros(R.m))):
                bad("bounds", "internal rows are not equalities with zero right-hand side")
            if R.ns and not np.array_equal(np.asarray(tp.slack_positions), R.S):
                bad("shape", "slack layout differs")
        # ---- evaluations at several points
        zl = spec.meta.get("zero_lb") or []
        npts = 3 if not zl else 7
        for t in range(npts):
            if fpe:
                break
            z = test_point(rng, np.where(np.isfinite(R.var_lb), R.var_lb, -np.inf), R.var_ub)
            if zl and t >= 2:
                # points that differ in *which* variables sit exactly at 0: the stored sparsity pattern of the
                # user's Jacobian / Hessian changes from point to point (often with the same number of entries)
                for j in range(spec.n):
                    lo = R.var_lb[j] if np.isfinite(R.var_lb[j]) else -1.0
                    hi = R.var_ub[j] if np.isfinite(R.var_ub[j]) else lo + 2.0
                    z[j] = 0.5 * (lo + hi) + 0.25 * (hi - lo) * rng.uniform(-1, 1)
                for j in zl:
                    if rng.random() < 0.5:
                        z[j] = 0.0
                bump("points_with_pattern_switch")
            y = rng.normal(size=R.m) * 10.0 ** rng.uniform(-3, 3)
            xu = R.x_user(z)
            if _range_bad(xu[z[: R.n] != 0]) or _range_bad(np.ldexp(y, w.cw - w.ow)[y != 0]):
                fpe = True
                break
            pairs = []
            todo = [("obj", lambda: tp.obj(z), lambda: R.obj(z)), ("obj_grad", lambda: tp.obj_grad(z), lambda: R.obj_grad(z))]
            if R.m:
                todo.append(("cons", lambda: tp.cons(z), lambda: R.cons(z)))
                todo.append(("cons_jac", lambda: tp.cons_jac(z).toarray(), lambda: R.cons_jac(z)))
            todo.append(("lag_hess", lambda: tp.lag_hess(z, y).toarray(), lambda: R.lag_hess(z, y)))
            for name, fgot, fexp in todo:
                exp = fexp()
                try:
                    pairs.append((name, fgot(), exp))
                except Exception as ex:
                    bad(name, "evaluation of the internal problem raised %s: %s" % (type(ex).__name__, str(ex)[:100]),
                        {"z": z, "exc": type(ex).__name__})
            for name, got, exp in pairs:
                # set aside over/underflow of the scaling itself ("absent overflow")
                # (the repository scales every stored entry, duplicates separately, the reference scales the
                # summed entry: both are exact unless a result lands in the subnormal range)
                ga = np.asarray(got, dtype=float)
                raw_bad = (_range_bad(np.asarray(exp)[np.asarray(exp) != 0]) if np.size(exp) else False) or \
                    (_range_bad(ga[ga != 0]) if ga.size else False)
                if raw_bad or not np.all(np.isfinite(np.asarray(exp, dtype=float))):
                    fpe = True
                    continue
                bump("compared_" + name)
                if not _same(got, exp):
                    g = np.asarray(got, dtype=float)
                    e = np.asarray(exp, dtype=float)
                    diff = float(np.max(np.abs(g - e))) if g.shape == e.shape else None
                    bad(name, "value differs from exact reference (max abs diff %s)" % diff,
                        {"z": z, "y": y, "got": g, "ref": e, "weights": {"vw": w.vw, "cw": w.cw, "ow": w.ow}})
        # ---- point mappings
        if not fpe:
            xmode = int(rng.integers(0, 4))
            if xmode == 0:
                x0 = None
                xarr = np.clip(np.zeros(spec.n), spec.var_lb, spec.var_ub)
            elif xmode == 1:
                x0 = float(rng.normal())
                xarr = np.full(spec.n, x0)
            else:
                x0 = np.copy(spec.x0)
                if xmode == 3:
                    x0 = x0 + rng.normal(size=spec.n)  # possibly out of bounds
                xarr = x0
            yarr = np.zeros(spec.m) if y0 is None else y0
            zi, yi = R.to_internal(xarr, yarr)
            if _range_bad(zi[zi != 0]) or _range_bad(yi[yi != 0]):
                fpe = True
            else:
                try:
                    it = T.create_transformed_iterate(x0, y0)
                except Exception as ex:
                    if not work.raised_in_repo(ex):
                        raise
                    bad("transform_sol", "mapping the start point raised %s: %s (%s)"
                        % (type(ex).__name__, str(ex)[:80], work.repo_frame(ex)), {"exc": type(ex).__name__})
                    continue
                bump("compared_initial_iterate")
                if not (_same(it.x, zi) and _same(it.y, yi)):
                    bad("transform_sol", "internal start point differs from reference "
                        "(slacks must be the projection of c_s(x0) onto [l_s,u_s])",
                        {"x0": xarr, "y0": yarr, "got_x": it.x, "ref_x": zi, "got_y": it.y, "ref_y": yi})
                else:
                    try:
                        itc = it.cons if R.m else None
                    except Exception as ex:
                        itc = None
                        bad("iterate.cons", "evaluation of the internal residual at the start raised %s: %s"
                            % (type(ex).__name__, str(ex)[:100]), {"exc": type(ex).__name__})
                    if R.m and itc is not None and not _same(itc, R.cons(zi)):
                        bad("iterate.cons", "internal residual at the start differs from the scaled user residual")
                    d = rng.normal(size=R.n + R.ns)
                    gx, gy, gd = T.restore_sol(np.copy(it.x), np.copy(it.y), d)
                    ex, ey, ed = R.to_user(zi, yi, d)
                    bump("compared_restore")
                    if not (_same(gx, ex) and _same(gy, ey) and _same(gd, ed)):
                        bad("restore_sol", "restored solution differs from reference",
                            {"got": [gx, gy, gd], "ref": [ex, ey, ed]})
                    if not (_same(gx, xarr) and _same(gy, yarr)):
                        bad("roundtrip", "transform followed by restore does not return the original point",
                            {"x0": xarr, "back": gx, "y0": yarr, "yback": gy})
        if fpe:
            bump("set_aside_overflow_or_underflow")
        else:
            keys.append("%s-%s-%s-%s-%s" % (fam, "-".join(map(str, gseed)), sc, fmt, dup))
            if sample is None and spec.n <= 3 and spec.m and sc == "custom":
                sample = {"spec": spec.summary(), "scaling": sc, "weights": {"vw": w.vw, "cw": w.cw, "ow": w.ow},
                          "fmt": fmt, "dup": dup, "slack_rows": R.S, "internal_lb": R.var_lb, "internal_ub": R.var_ub}
        if len(viol) > 8:
            break
    out = {"viol": viol[:6], "evals": case["count"], "nt_keys": keys, "ctr": ctr}
    if sample:
        out["sample"] = sample
    return out


def finalize(agg, tier):
    return {
        "rule": "generated problems of all families (incl. integer / 0-1 / single-precision data handed over as int64, int32, int8, bool, float32 matrices and float32 vectors) x sparse format (COO/CSR/CSC, optionally non-canonical with "
                "duplicates and explicit zeros) x scaling (none, custom weights in [-40,40], extreme custom weights "
                "+-500, GradJac, Nominal, KKT) x 3 evaluation points (on/inside/outside bounds; 7 for specs with structurally sparse derivatives, five of them differing in which variables sit exactly at 0 so that the stored pattern of the user's matrices changes between evaluations of the same transformed problem) with random "
                "multipliers of magnitude 1e-3..1e3, plus start-point mapping for x0 None/scalar/array/out-of-bounds "
                "and round trip; a case is non-trivial when every comparison was carried out without the scaling "
                "itself over- or underflowing (those are set aside and counted); distinct by (spec seed, scaling, format)",
        "floors": {"compared_cons": 500, "compared_cons_jac": 500, "compared_lag_hess": 1000,
                   "compared_initial_iterate": 500, "compared_restore": 500, "scaling_custom": 100,
                   "scaling_GradJac": 50, "scaling_KKT": 50, "scaling_Nominal": 50, "points_with_pattern_switch": 300, "policy_const": 200, "policy_memo": 200,
                   "jacobian_dtype_bool": 40, "jacobian_dtype_float32": 40, "jacobian_dtype_int64": 40, "float32_vectors": 30, "int64_vectors": 30, "specs_with_free_rows": 40, "scaling_objects_adjusted_after_use": 150, "custom_weights_stored_as_int8": 60,
                   "custom_weights_stored_as_int16": 60},
        "assumptions": ["bit-level oracle: ldexp by integer weights is exact absent over/underflow; cases where the "
                        "scaling over- or underflows are set aside per the statement ('absent overflow')"],
    }
