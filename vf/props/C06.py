"""C06 -- solve() ends with a status or a deliberate error, never an internal crash.

Outcome classifier around real `Solver.solve` calls over hostile problem families and
configurations (all algorithmic axes plus reporting options, DEBUG logging with a real
formatting handler, tiny lamb_max, x0=None / scalar starts).
"""
import io
import logging

import numpy as np

from .. import boot  # noqa: F401
from .. import cfg as C
from .. import mon, work
from ..gen import rng_for

LEVEL = "exploration"
CASE_TIMEOUT = {"quick": 90, "thorough": 180}
FAMS = ["QP", "NLP", "NLP", "DEG", "NCVX", "UNB", "INF"]
STATUSES = {"Optimal", "IterationLimit", "TimeLimit", "Unbounded", "LocallyInfeasible"}


def gen_cases(tier, seed):
    rng = rng_for("C06cases", seed)
    cases = []
    rows = C.pairwise(seed=seed)
    nrand = 900 if tier == "quick" else 9000
    k = 0
    for rep in range(2 if tier == "quick" else 4):
        for row in rows:
            fam = FAMS[k % len(FAMS)]
            cases.append(_case(rng, fam, [seed, k], dict(row)))
            k += 1
    # stored witness of the open finding KF-C06-FILTER-PENALTY-OVERFLOW (always exercised)
    w = work.mk_case("FILE", [0], {"newton": "Globalized", "step_solver": "Extended", "linear": "GMRES", "control": "Fixed",
                                   "penalty": "LagrangianFilter", "active": "SmallestActiveSet", "scaling": "GradJac",
                                   "iteration_limit": 400, "lamb_max": 20.624473932824444},
                     gopts={"path": "witness/C06_filter_penalty_overflow.json"})
    w.update(log="CRITICAL", display_interval=0.1, y0="none", fmt="coo")
    cases.append(w)
    # stored witnesses of repaired defects 19 and 20 (instances as plain data, independent of the generators)
    cases.append({'fam': 'FILE', 'gseed': [0], 'cfg': {'newton': 'Full', 'step_solver': 'Symmetric', 'linear': 'GMRES', 'control': 'DistanceRatio', 'penalty': 'LagrangianFilter', 'active': 'SmallestActiveSet', 'scaling': 'none', 'iteration_limit': 300, 'K_P': 0.9747019779428236, 'K_I': 0.09053247692043143, 'newton_tol': 1e-08}, 'gopts': {'path': 'witness/C06_controller_overflow.json'}, 'fmt': 'dok', 'dup': 0, 'y0': 'none', 'log': 'DEBUG', 'display_interval': 0.1})
    cases.append({'fam': 'FILE', 'gseed': [0], 'cfg': {'newton': 'ActiveSet', 'step_solver': 'Symmetric', 'linear': 'LU', 'control': 'Fixed', 'penalty': 'ParetoDecrease', 'active': 'Explicit', 'scaling': 'custom', 'tau': 1.0, 'iteration_limit': 300, 'report_rcond': True, 'collect_path': True, 'rho': 0.06779697154482475, 'weights': {'vw': [-6, 4, 3, 6, -3, -5, 0, -3, 1, -4, -1, 0], 'cw': [4, 4], 'ow': 4}}, 'gopts': {'path': 'witness/C06_pareto_overflow.json'}, 'fmt': 'csc', 'dup': 2, 'y0': 'none', 'log': 'CRITICAL', 'display_interval': 0.1})
    # long uninterrupted histories: more than a thousand iterations in each of which the inverse step size is reduced
    # (unbounded LP with a small cost, objective limit switched off)
    for j in range(8 if tier == "quick" else 120):
        cfgd = C.sample(rng)
        cfgd.update(control=["DistanceRatio", "Exact", "ResiduumRatio", "DistanceRatio"][j % 4], scaling="none",
                    iteration_limit=1100, obj_lower_limit=float("-inf"), newton="Simplified", linear="LU")
        lc = work.mk_case("UNB", [seed, 900000 + j], cfgd, gopts={"variant": 5})
        lc.update(log="CRITICAL", display_interval=0.1, y0="none", long_history=True)
        cases.append(lc)
    for _ in range(nrand):
        fam = str(rng.choice(FAMS, p=[0.2, 0.3, 0.0, 0.15, 0.15, 0.1, 0.1]))
        cases.append(_case(rng, fam, [seed, k], C.sample(rng)))
        k += 1
    return cases


def _case(rng, fam, gseed, cfgd):
    cfgd["iteration_limit"] = int(rng.choice([150, 300])) if fam != "INF" else 400
    if rng.random() < 0.3:
        cfgd["report_rcond"] = True
    if rng.random() < 0.3:
        cfgd["collect_path"] = True
    if rng.random() < 0.15:
        cfgd["lamb_max"] = float(10.0 ** rng.uniform(1, 4))
    if rng.random() < 0.2:
        cfgd["rho"] = float(10.0 ** rng.uniform(-8, 1))
    if rng.random() < 0.1:
        cfgd["lamb_init"] = float(10.0 ** rng.uniform(-3, 2))
    if fam == "UNB" and rng.random() < 0.5:
        cfgd["obj_lower_limit"] = -1e3
    if rng.random() < 0.25:
        cfgd.update(C.rare_params(rng, allow_unvalidated=True))
    case = work.mk_case(fam, gseed, cfgd)
    case["log"] = str(rng.choice(["CRITICAL", "INFO", "DEBUG"], p=[0.5, 0.2, 0.3]))
    case["display_interval"] = float(rng.choice([0.0, 0.1]))
    case["y0"] = "rand" if rng.random() < 0.4 else "none"
    if rng.random() < 0.1:
        case["y0_scale"] = 1e4
    r = rng.random()
    if r < 0.08:
        case["x0"] = "none"
    # any scipy.sparse format may come back from a user's callback
    if rng.random() < 0.25:
        case["fmt"] = str(rng.choice(["dia", "diaj", "bsr", "lil", "dok"]))
        if rng.random() < 0.3 and fam in ("QP", "NLP"):
            case["gopts"] = dict(case.get("gopts", {}), row_force=["eq"] * 12)
    if rng.random() < 0.15:
        case["deriv_check"] = str(rng.choice(["first", "second", "all"]))
    if fam == "DEG" and rng.random() < 0.4:
        # an equality row with an all-zero Jacobian, handed over unconverted (no scaling, no slack) in any format
        case["gopts"] = {"variant": 6}
        cfgd["scaling"] = "none"
        case["fmt"] = ["dia", "diaj", "dia", "bsr", "lil", "dok", "coo", "csr", "csc", "diaj"][gseed[-1] % 10]
        case["zero_jac_eq"] = True
    if fam == "DEG" and "gopts" not in case and rng.random() < 0.35:
        # variables that enter linearly (structurally empty trailing Hessian columns), no constraints, no scaling: the
        # Hessian reaches the step solvers in the format the callback chose
        case["gopts"] = {"variant": 7}
        cfgd["scaling"] = "none"
        case["fmt"] = ["dia", "diaj", "dia", "bsr", "dia", "dok", "coo", "dia", "csc", "dia"][gseed[-1] % 10]
        case["linear_vars"] = True
    if fam in ("QP", "NLP") and "gopts" not in case and rng.random() < 0.1:
        case["gopts"] = {"row_force": ["free"]}   # a row without any bound
    return case


class Logging:
    def __init__(self, level):
        self.level = level

    def __enter__(self):
        self.lg = logging.getLogger("gradflow")
        self.old = (self.lg.level, list(self.lg.handlers))
        self.stream = io.StringIO()
        h = logging.StreamHandler(self.stream)
        h.setFormatter(logging.Formatter("%(levelname)s %(message)s"))
        self.lg.handlers[:] = [h]
        self.lg.setLevel(getattr(logging, self.level))
        return self

    def __exit__(self, *a):
        self.lg.setLevel(self.old[0])
        self.lg.handlers[:] = self.old[1]
        return False


def judge(case, p, out):
    """-> (violations, outcome class string)"""
    viol = []
    key = work.cfg_key(case["cfg"])
    key["family"] = case["fam"]
    key["log"] = case.get("log", "CRITICAL")
    key["report_rcond"] = bool(case["cfg"].get("report_rcond", False))
    # mechanism marker for the open finding "filter penalty overflows": the solver's
    # penalty parameter is no longer finite when the solve ends
    rho_now = getattr(out.solver, "rho", None) if out.solver is not None else None
    # (non-finite, or so large that rho * |c| and rho^2 overflow: >= 1e150, reached only through hundreds of
    # accumulated tenfold increases)
    key["rho_overflow"] = bool(rho_now is not None and (not np.isfinite(rho_now) or rho_now >= 1e150))
    if out.construct_exc is not None:
        return viol, "construct:" + type(out.construct_exc).__name__
    if out.result is not None:
        r = out.result
        cls = "status:" + r.status.name
        if r.status.name not in STATUSES:
            viol.append({"what": "unknown status %r" % r.status, "key": dict(key, kind="status")})
        for nm in ("x", "y", "d"):
            v = np.asarray(getattr(r, nm), dtype=float)
            if not np.all(np.isfinite(v)):
                viol.append({"what": "returned %s is not finite (status %s)" % (nm, r.status.name),
                             "key": dict(key, kind="non-finite-result", field=nm, status=r.status.name)})
        return viol, cls
    if out.kind in ("initial", "lamb_max", "line_search", "DerivError"):
        # (whether a DerivError is justified is C19's question; here it is one of the deliberate failures)
        return viol, "raise:" + out.kind
    viol.append({"what": "solve() died with %s at %s: %s" % (type(out.exc).__name__, out.site, str(out.exc)[:120]),
                 "key": dict(key, kind="crash", exc=type(out.exc).__name__, site=out.site),
                 "detail": {"traceback": out.tb}})
    return viol, "crash:%s@%s" % (type(out.exc).__name__, out.site)


def run_case(case):
    p = work.prepare(case, record_sites=False, keep_args=False)
    p.params.display_interval = case.get("display_interval", 0.1)
    if case.get("deriv_check"):
        from pygradflow.params import DerivCheck

        p.params.deriv_check = {"first": DerivCheck.CheckFirst, "second": DerivCheck.CheckSecond,
                                "all": DerivCheck.CheckAll}[case["deriv_check"]]
    with Logging(case.get("log", "CRITICAL")):
        out = mon.run_solve(p.rec, p.params, p.x0, p.y0)
    viol, cls = judge(case, p, out)
    c = C.normalise(case["cfg"])
    res = {"viol": viol, "ctr": {"outcome_" + cls.split("@")[0]: 1, "family_" + case["fam"]: 1},
           "sets": {"outcome_classes": [cls], "newton": [c["newton"]], "step_solver": [c["step_solver"]],
                    "linear": [c["linear"]], "control": [c["control"]], "penalty": [c["penalty"]],
                    "active": [c["active"]], "scaling": [c["scaling"]]}}
    for ax in ("newton", "step_solver", "linear", "control", "penalty", "active", "scaling"):
        res["ctr"]["%s_%s" % (ax, c[ax])] = 1
    res["ctr"]["log_" + case.get("log", "CRITICAL")] = 1
    res["ctr"]["fmt_" + p.fmt] = 1
    if case.get("deriv_check"):
        res["ctr"]["runs_with_derivative_check"] = 1
        res["ctr"]["runs_with_derivative_check_debug_log"] = int(case.get("log") == "DEBUG")
        res["ctr"]["runs_with_derivative_check_no_constraints"] = int(p.spec.m == 0)
    if case.get("long_history") and out.result is not None:
        res["ctr"]["long_history_runs_beyond_1000_iterations"] = int(out.result.iterations > 1000)
    if case.get("linear_vars"):
        res["ctr"]["linear_variables_fmt_" + p.fmt] = 1
    if case.get("zero_jac_eq"):
        res["ctr"]["zero_jacobian_equality_fmt_" + p.fmt] = 1
    if case["cfg"].get("report_rcond"):
        res["ctr"]["report_rcond_on"] = 1
    ntrials = len(out.trace.trials)
    if ntrials >= 2 and not cls.startswith("construct"):
        res["nt_keys"] = ["%s-%s" % (case["fam"], "-".join(map(str, case["gseed"])))]
    if case["gseed"][-1] % 97 == 0:
        res["sample"] = {"spec": p.spec.summary(), "cfg": case["cfg"], "log": case.get("log"),
                         "outcome": cls, "trial_steps": ntrials}
    return res


def finalize(agg, tier):
    return {
        "rule": "problem families QP/NLP/degenerate/nonconvex-singular/unbounded/infeasible x (two passes over a pairwise "
                "covering array of Newton type, step solver, linear solver, step control, penalty policy, active-set rule, "
                "scaling + uniformly random configurations) x sparse format of the callbacks (COO/CSR/CSC, 25% DIA/BSR/LIL/DOK) x reporting options (report_rcond, collect_path, log level "
                "CRITICAL/INFO/DEBUG with a formatting handler, display interval 0/0.1) x lamb_max 1e1..1e4, rho, lamb_init, "
                "random multiplier starts up to 1e4, x0=None; non-trivial = the solve computed at least two trial steps; "
                "distinct by spec seed",
        "floors": {"outcome_status:Optimal": 200, "log_DEBUG": 100, "report_rcond_on": 100,
                   "outcome_raise:lamb_max": 5, "newton_Globalized": 50, "linear_MINRES": 10,
                   "penalty_LagrangianFilter": 50, "family_NCVX": 50, "fmt_dia": 20, "fmt_bsr": 20, "zero_jacobian_equality_fmt_dia": 3, "linear_variables_fmt_dia": 3, "long_history_runs_beyond_1000_iterations": 3, "runs_with_derivative_check": 60,
                   "runs_with_derivative_check_debug_log": 10, "runs_with_derivative_check_no_constraints": 10},
        "assumptions": ["exceptions raised while constructing the Solver (scaling computation) are counted, not judged: "
                        "the property speaks about solve()",
                        "deliberate failures are recognised by type Exception and message prefix, DerivError by type"],
    }
