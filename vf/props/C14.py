"""C14 -- all step-solver and linear-solver choices compute the same Newton step.

For one generated (problem, point, multiplier, dt, rho) the real
`newton_method(problem, params, iterate, dt, rho).step(iterate)` is executed for all 27
combinations (4 step solvers x LU/GMRES, Symmetric x MINRES; x Simplified/Full/ActiveSet)
and compared with the dense reference semismooth Newton step.  A recording wrapper
substituted for `pygradflow.linear_solver.linear_solver` captures the matrix each linear
solver actually received (for the iterative solvers' tolerance).
"""
import warnings

import numpy as np

from .. import boot  # noqa: F401
from .. import cfg as C
from .. import ref as R
from .. import work
from ..gen import SpecProblem, make_spec, rng_for

LEVEL = "exploration"
BATCH = 6
COMBOS = [(ss, ls) for ss in C.STEP_SOLVER for ls in ("LU", "GMRES")] + [("Symmetric", "MINRES")]
NEWTONS = ["Simplified", "Full", "ActiveSet"]
LU_TOL = 1e-8        # x cond(F') x |step|: forward error allowance for direct solves
IT_TOL = 1e-5        # stated relative tolerance of GMRES / MINRES


def gen_cases(tier, seed):
    nb = 100 if tier == "quick" else 3400
    return [{"seed": [seed, i], "count": BATCH} for i in range(nb)]


class RecordingFactory:
    def __init__(self, real):
        self.real = real
        self.mats = []

    def __call__(self, mat, solver_type, symmetric=False):
        self.mats.append(mat)
        return self.real(mat, solver_type, symmetric=symmetric)


def in_box_point(rng, D, on_bound=0.25):
    x = np.zeros(D.n)
    for j in range(D.n):
        l, u = D.lb[j], D.ub[j]
        lo = l if np.isfinite(l) else (u - 3.0 if np.isfinite(u) else -2.0)
        hi = u if np.isfinite(u) else (l + 3.0 if np.isfinite(l) else 2.0)
        r = rng.random()
        if r < on_bound / 2 and np.isfinite(l):
            x[j] = l
        elif r < on_bound and np.isfinite(u):
            x[j] = u
        else:
            x[j] = rng.uniform(lo, hi) if hi > lo else lo
    return np.minimum(np.maximum(x, D.lb), D.ub)


def run_case(case):
    import pygradflow.linear_solver as LS
    from pygradflow.iterate import Iterate
    from pygradflow.newton import newton_method
    from pygradflow.step.step_solver_error import StepSolverError
    from pygradflow.transform import Transformation

    warnings.simplefilter("ignore")
    rng = rng_for("C14", *case["seed"])
    viol, keys, ctr, mx = [], [], {}, {}
    sample = None

    def bump(k, v=1):
        ctr[k] = ctr.get(k, 0) + v

    real_factory = LS.linear_solver
    rec = RecordingFactory(real_factory)
    LS.linear_solver = rec
    try:
        for k in range(case["count"]):
            fam = str(rng.choice(["NLP", "NLP", "NLP", "QP", "QP", "DEG"]))
            gseed = case["seed"] + [k]
            spec = make_spec(fam, gseed)
            sc = str(rng.choice(["none", "none", "custom"]))
            weights = C.scaling_weights(rng, spec.n, spec.m, span=3) if sc == "custom" else None
            fmt = str(rng.choice(["coo", "csr", "csc"]))
            w = R.Weights(weights["vw"], weights["cw"], weights["ow"]) if weights else R.Weights.zero(spec.n, spec.m)
            D = R.internal_dense(R.user_dense(spec), w)
            n, m = D.n, D.m
            xh = in_box_point(rng, D)
            yh = rng.normal(size=m) * 10.0 ** rng.uniform(-1, 1)
            rho = float(10.0 ** rng.uniform(-3, 2))
            # mostly moderate steps, a share of very long ones (tiny lamb = 1/dt on the diagonal)
            dt = float(10.0 ** rng.uniform(-3, 2)) if rng.random() < 0.7 else float(10.0 ** rng.uniform(2, 9))
            # the look-ahead parameter of the active-set rule (None = the step size itself)
            tau = float(10.0 ** rng.uniform(-3, 1)) if rng.random() < 0.4 else None
            # reference step
            p = R.proj_point(D, xh, xh, yh, rho, dt, tau)
            pmag = np.abs(xh) + (dt if tau is None else tau) * (
                D.gabs(xh) + D.Jabs(xh).T.dot(rho * D.cabs(xh) + np.abs(yh)))
            # activity threshold: 1e-8 in the unscaled formulation (Standard step solver), 1e-8 in units of lamb = 1/dt
            # in the scaled one (the other step solvers): points between the two thresholds (widened by rounding)
            # have no single "same active set" and are skipped
            s_lo, s_hi = 1e-8 * min(1.0, dt), 1e-8 * max(1.0, dt)
            r = 1e-9 * (pmag + 1.0)
            amb = ((p >= D.lb - s_hi - r) & (p <= D.lb - s_lo + r)) | ((p <= D.ub + s_hi + r) & (p >= D.ub + s_lo - r))
            if amb.any():
                bump("skipped_ambiguous_active_set")
                continue
            act = R.active_set(D, p)
            try:
                xr, yr, s, cond = R.newton_step(D, xh, yh, xh, yh, rho, dt, act)
            except np.linalg.LinAlgError:
                bump("skipped_singular_reference")
                continue
            if not np.isfinite(cond) or cond > 1e6:
                bump("skipped_ill_conditioned")
                continue
            snorm = float(np.max(np.abs(s))) if s.size else 0.0
            scale = max(snorm, 1e-300)
            cviol = float(np.max(np.abs(D.c(xh)))) if m else 0.0
            nonlin = bool(spec.nonlinear_cons)
            bump("points")
            bump("points_nonlinear_rows_violated", int(nonlin and cviol > 1e-3))
            bump("points_active_set_nonempty", int(act.any()))
            if tau is not None:
                bump("points_with_tau")
                bump("points_tau_changes_active_set",
                     int(not np.array_equal(act, R.active_set(D, R.proj_point(D, xh, xh, yh, rho, dt)))))
            results = {}
            for ss, ls in COMBOS:
                for nt in NEWTONS:
                    cfgd = {"step_solver": ss, "linear": ls, "newton": nt, "scaling": sc}
                    key = {"step_solver": ss, "linear": ls, "newton": nt,
                           "rows": "nonlinear" if nonlin else "affine"}
                    prob = SpecProblem(spec, fmt=fmt)
                    params = C.make_params(cfgd, spec, weights=weights)
                    T = Transformation(prob, params)
                    tp = T.trans_problem
                    it = Iterate(tp, params, xh, yh, T.evaluator)
                    rec.mats = []
                    try:
                        meth = (newton_method(tp, params, it, dt, rho) if tau is None
                                else newton_method(tp, params, it, dt, rho, tau))
                        res = meth.step(it)
                    except StepSolverError:
                        bump("step_solver_error_%s" % ls)
                        continue
                    except Exception as ex:
                        if not work.raised_in_repo(ex):
                            raise
                        viol.append({"what": "%s/%s/%s step raised %s: %s (%s)" % (ss, ls, nt, type(ex).__name__, str(ex)[:80],
                                                                                  work.repo_frame(ex)),
                                     "key": dict(key, kind="exception", exc=type(ex).__name__, where=work.repo_frame(ex)),
                                     "detail": {"fam": fam, "gseed": gseed, "fmt": fmt}})
                        continue
                    xg = np.asarray(res.iterate.x, dtype=float)
                    yg = np.asarray(res.iterate.y, dtype=float)
                    results[(ss, ls, nt)] = (xg, yg)
                    bump("steps_%s_%s" % (ss, ls))
                    if res.active_set is not None and not np.array_equal(np.asarray(res.active_set), act):
                        viol.append({"what": "active set of the step %s differs from the documented rule %s"
                                             % (np.asarray(res.active_set), act),
                                     "key": dict(key, kind="active-set"),
                                     "detail": {"fam": fam, "gseed": gseed, "dt": dt, "rho": rho, "tau": tau}})
                        continue
                    err = max(float(np.max(np.abs(xg - xr))) if n else 0.0,
                              float(np.max(np.abs(yg - yr))) if m else 0.0)
                    if ls == "LU":
                        lim = LU_TOL * cond * scale
                        mx["lu_err_over_allowance"] = max(mx.get("lu_err_over_allowance", 0.0), err / lim)
                        if not err <= lim:
                            viol.append({"what": "%s/%s/%s step differs from the dense reference Newton step: "
                                                 "error %.3e, |step| %.3e, cond %.1e (rows %s, |c| %.2e)"
                                                 % (ss, ls, nt, err, snorm, cond, key["rows"], cviol),
                                         "key": dict(key, kind="reference-step"),
                                         "detail": {"fam": fam, "gseed": gseed, "dt": dt, "rho": rho, "xh": xh, "yh": yh,
                                                    "got_x": xg, "ref_x": xr, "got_y": yg, "ref_y": yr, "active": act}})
                    else:
                        base = results.get((ss, "LU", nt))
                        if base is None or not rec.mats:
                            continue
                        M = rec.mats[-1].toarray()
                        if M.size == 0:
                            condM = 1.0
                        else:
                            condM = float(np.linalg.cond(M))
                        e2 = max(float(np.max(np.abs(xg - base[0]))) if n else 0.0,
                                 float(np.max(np.abs(yg - base[1]))) if m else 0.0)
                        # forward error of an iterative solve with relative residual IT_TOL (atol 1e-8 for GMRES),
                        # mapped through the back-substitution of the step solver (factor <= 1 + rho)
                        minv = float(np.linalg.norm(np.linalg.inv(M), 2)) if M.size and np.isfinite(condM) else 0.0
                        lim2 = 100.0 * (condM * IT_TOL * max(snorm, 1e-300) * (1.0 + rho) * max(1.0, 1.0 / dt)
                                       + 1e-8 * minv * (1.0 + rho) * max(1.0, dt))
                        mx["iter_err_over_allowance"] = max(mx.get("iter_err_over_allowance", 0.0), e2 / lim2 if lim2 else 0.0)
                        if not e2 <= lim2:
                            viol.append({"what": "%s/%s/%s step differs from the LU step of the same step solver by %.3e "
                                                 "(allowance %.3e, cond of solver matrix %.1e)" % (ss, ls, nt, e2, lim2, condM),
                                         "key": dict(key, kind="iterative-vs-lu"),
                                         "detail": {"fam": fam, "gseed": gseed, "dt": dt, "rho": rho}})
            # one step-solver object serving two active sets in turn (as the active-set Newton variant uses it: the
            # derivatives are set once, the active set changes between solves)
            if n:
                from pygradflow.step.solver import step_solver as make_step_solver

                A1 = rng.random(size=n) < 0.4
                A2 = rng.random(size=n) < 0.4
                if np.array_equal(A1, A2):
                    A2[int(rng.integers(0, n))] ^= True
                try:
                    xr2, yr2, s2, cond2 = R.newton_step(D, xh, yh, xh, yh, rho, dt, A2)
                except np.linalg.LinAlgError:
                    cond2 = np.inf
                if np.isfinite(cond2) and cond2 <= 1e6:
                    sn2 = max(float(np.max(np.abs(s2))) if s2.size else 0.0, 1e-300)
                    for ss in C.STEP_SOLVER:
                        cfgd = {"step_solver": ss, "linear": "LU", "newton": "ActiveSet", "scaling": sc}
                        prob = SpecProblem(spec, fmt=fmt)
                        params = C.make_params(cfgd, spec, weights=weights)
                        T = Transformation(prob, params)
                        it = Iterate(T.trans_problem, params, xh, yh, T.evaluator)
                        try:
                            so = make_step_solver(T.trans_problem, params, it, dt, rho)
                            so.update_derivs(it)
                            so.update_active_set(np.copy(A1))
                            so.solve(it)
                            so.update_active_set(np.copy(A2))
                            r2 = so.solve(it)
                        except StepSolverError:
                            bump("reuse_step_solver_error")
                            continue
                        err2 = max(float(np.max(np.abs(np.asarray(r2.iterate.x, dtype=float) - xr2))),
                                   float(np.max(np.abs(np.asarray(r2.iterate.y, dtype=float) - yr2))) if m else 0.0)
                        bump("reused_step_solver_second_active_set")
                        lim2r = LU_TOL * cond2 * sn2
                        mx["reuse_err_over_allowance"] = max(mx.get("reuse_err_over_allowance", 0.0), err2 / lim2r)
                        if not err2 <= lim2r:
                            viol.append({"what": "%s/LU: a step-solver object that served another active set before returns a "
                                                 "step that differs from the dense reference Newton step by %.3e "
                                                 "(|step| %.3e, cond %.1e)" % (ss, err2, sn2, cond2),
                                         "key": {"step_solver": ss, "linear": "LU", "kind": "reused-object-step"},
                                         "detail": {"fam": fam, "gseed": gseed, "dt": dt, "rho": rho, "A1": A1, "A2": A2}})
            # Newton variants take the same first step (bitwise per step solver / linear solver)
            for ss, ls in COMBOS:
                got = [results.get((ss, ls, nt)) for nt in NEWTONS]
                if any(g is None for g in got):
                    continue
                bump("variant_triples_compared")
                for nt, g in zip(NEWTONS[1:], got[1:]):
                    if not (np.array_equal(g[0], got[0][0]) and np.array_equal(g[1], got[0][1])):
                        dmax = max(float(np.max(np.abs(g[0] - got[0][0]))) if n else 0.0,
                                   float(np.max(np.abs(g[1] - got[0][1]))) if m else 0.0)
                        viol.append({"what": "first step of Newton variant %s differs from Simplified (max diff %.3e) "
                                             "with %s/%s" % (nt, dmax, ss, ls),
                                     "key": {"step_solver": ss, "linear": ls, "newton": nt, "kind": "variant-first-step"},
                                     "detail": {"fam": fam, "gseed": gseed, "dt": dt, "rho": rho}})
            # QP: one step with unchanged active set solves the implicit-Euler equation
            if spec.is_qp and tau is None:
                xun = xh - s[:n]
                inact = ~act
                if np.all(xun[inact] >= D.lb[inact]) and np.all(xun[inact] <= D.ub[inact]):
                    for ss in C.STEP_SOLVER:
                        g = results.get((ss, "LU", "Full"))
                        if g is None:
                            continue
                        p2 = R.proj_point(D, xh, g[0], g[1], rho, dt)
                        act2 = R.active_set(D, p2)
                        # "unchanged active set" = same components clipped to the same bound
                        if not np.array_equal(act2, act) or not np.array_equal((p2 > D.ub)[act], (p > D.ub)[act]):
                            continue
                        F2, _ = R.implicit_F(D, xh, yh, g[0], g[1], rho, dt, act)
                        fn = float(np.max(np.abs(F2))) if F2.size else 0.0
                        # magnitude of the terms of F at the new point (they grow with dt)
                        magx = np.abs(g[0]) + np.abs(xh) + dt * (D.gabs(g[0]) + D.Jabs(g[0]).T.dot(
                            rho * D.cabs(g[0]) + np.abs(g[1])))
                        magy = np.abs(g[1]) + np.abs(yh) + dt * D.cabs(g[0])
                        lim = 1e-9 * cond * (1.0 + float(np.max(np.concatenate([magx, magy]))))
                        bump("qp_one_step_exact_checked")
                        mx["qp_residual_over_allowance"] = max(mx.get("qp_residual_over_allowance", 0.0), fn / lim)
                        if not fn <= lim:
                            viol.append({"what": "QP: implicit-Euler residual after one %s Newton step with unchanged "
                                                 "active set is %.3e (allowance %.3e)" % (ss, fn, lim),
                                         "key": {"step_solver": ss, "linear": "LU", "kind": "qp-one-step"},
                                         "detail": {"fam": fam, "gseed": gseed, "dt": dt, "rho": rho}})
            keys.append("%s-%s" % (fam, "-".join(map(str, gseed))))
            if sample is None and n <= 3 and m >= 1:
                sample = {"spec": spec.summary(), "xh": xh, "yh": yh, "dt": dt, "rho": rho, "active_set": act,
                          "reference_step": s, "cond": cond, "configurations_run": len(results)}
            if len(viol) > 12:
                break
    finally:
        LS.linear_solver = real_factory
    out = {"viol": viol[:8], "evals": case["count"], "nt_keys": keys, "ctr": ctr, "maxes": mx}
    if sample:
        out["sample"] = sample
    return out


def finalize(agg, tier):
    return {
        "rule": "generated NLP (violated nonlinear rows), QP and degenerate specs x in-box points (25% of components on a "
                "bound) x multipliers 1e-1..1e1 x dt, rho in 1e-3..1e2 x look-ahead tau (None, or 1e-3..10 on 40% of the points); every point is also put to one step-solver object per step-solver type that serves two random active sets in turn with the derivatives set once; every point is run through all 27 step-solver x "
                "linear-solver x Newton-variant combinations; points whose reference Jacobian has cond > 1e6 or whose "
                "activity test is within rounding of its threshold are skipped and counted; non-trivial = point with a "
                "reference step that was compared; distinct by spec seed",
        "floors": {"points": 300, "points_nonlinear_rows_violated": 60, "points_active_set_nonempty": 100,
                   "variant_triples_compared": 2000, "qp_one_step_exact_checked": 50,
                   "points_with_tau": 80, "reused_step_solver_second_active_set": 800, "points_tau_changes_active_set": 15,
                   "steps_Standard_LU": 500, "steps_Extended_LU": 500, "steps_Symmetric_LU": 500,
                   "steps_Asymmetric_LU": 500, "steps_Symmetric_MINRES": 300, "steps_Asymmetric_GMRES": 300},
        "assumptions": ["LU: forward error <= 1e-8 * cond(F') * |step|; iterative solvers are compared with the LU step "
                        "of the same step solver within 100*(cond(M)*1e-5*|step| + 1e-8*|M^-1|) scaled by the "
                        "back-substitution factors, M being the matrix the solver received"],
    }
