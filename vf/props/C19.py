"""C19 -- the derivative checker accepts correct derivatives and pinpoints wrong ones.

Fault injection into derivatives: real `Solver.solve` runs with deriv_check enabled on
(a) correct problems of the well-scaled class -- defined by a *computed* bound on the
forward-difference error, 10x below the checker's tolerance -- which must not raise
DerivError and must produce the same trajectory as the run without the check, and
(b) problems in which exactly one gradient / Jacobian / Hessian entry is wrong by more
than the tolerance, which must raise DerivError naming exactly that row and column.
"""
import numpy as np
import scipy.sparse as sps

from .. import boot  # noqa: F401
from .. import cfg as C
from .. import mon, work
from .. import ref as R
from ..gen import SpecProblem, make_spec, rng_for

LEVEL = "exploration"
CASE_TIMEOUT = {"quick": 90, "thorough": 180}
SHARDS_PER_JOB = 5
EPS = 1e-8
TOL = 1e-4
MACH = np.finfo(float).eps


def gen_cases(tier, seed):
    rng = rng_for("C19cases", seed)
    cases = []
    n = 150 if tier == "quick" else 4200
    for k in range(n):
        cfgd = {"scaling": str(rng.choice(["none", "none", "custom"])), "iteration_limit": 6,
                "control": str(rng.choice(C.CONTROL)), "newton": str(rng.choice(["Simplified", "Full"]))}
        case = work.mk_case("NLP", [seed, k], cfgd, gopts={"n": int(rng.integers(1, 7))}, wspan=2)
        case["fmt"] = str(rng.choice(["coo", "csr", "csc"]))
        case["y0"] = "rand" if rng.random() < 0.7 else "none"
        case["x0"] = "restart"
        case["x0_seed"] = int(rng.integers(0, 1000))
        # starts strictly inside the box but within a hair of a bound (closer than the checker's perturbation)
        case["x0_near"] = bool(k % 3 == 1)
        # checker parameters: defaults and non-default perturbation / tolerance pairs
        pert, tol = [(1e-8, 1e-4), (1e-8, 1e-4), (1e-7, 1e-5), (1e-6, 1e-4), (1e-8, 1e-5), (1e-7, 1e-4)][int(rng.integers(0, 6))]
        case["deriv_pert"], case["deriv_tol"] = pert, tol
        if rng.random() < 0.3:
            # the user's matrices reach the checker as they are (no scaling, no slack columns) and the user sets up
            # the sparsity structure once: all matrices handed out share their (non-canonically ordered) index arrays
            cfgd["scaling"] = "none"
            case["gopts"]["row_force"] = ["eq"] * 12
            case["policy"] = "shared"
        cases.append(case)
    return cases


class CorruptProblem(mon.ProxyProblem):
    """Proxy that makes exactly one derivative entry of the user's problem wrong."""

    def __init__(self, inner, kind, i, j, delta):
        super().__init__(inner)
        self.kind, self.i, self.j, self.delta = kind, i, j, delta

    def obj_grad(self, x):
        g = np.array(self.inner.obj_grad(x), dtype=float, copy=True)
        if self.kind == "grad":
            g[self.j] += self.delta
        return g

    def _bump(self, mat):
        A = np.array(mat.toarray(), dtype=float)
        if self.delta is None:
            A[self.i, self.j] = 0.0   # entry forgotten: absent from the sparsity pattern
        else:
            A[self.i, self.j] += self.delta
        return {"coo": sps.coo_matrix, "csr": sps.csr_matrix, "csc": sps.csc_matrix}[self.inner.fmt](A)

    def cons_jac(self, x):
        J = self.inner.cons_jac(x)
        return self._bump(J) if self.kind == "jac" else J

    def lag_hess(self, x, y):
        H = self.inner.lag_hess(x, y)
        return self._bump(H) if self.kind == "hess" else H


def fd_error_bounds(D, z, y, EPS=1e-8):
    """Bounds on |analytic - forward difference| for the three checked functions of the internal problem
    at z: truncation eps/2*|second derivative| + evaluation rounding 4*macheps*|f|/eps + perturbation rounding
    2*macheps*|z_i|*|d|/eps.  Returns the largest bound over all entries."""
    n, m = D.n, D.m
    ya = np.abs(y)
    za = np.abs(z) + EPS
    Ha = D.Habs(z, np.zeros(m))
    Ja = D.Jabs(z)
    # objective
    b_obj = EPS / 2 * np.max(Ha, initial=0.0) + 4 * MACH * D.fabs(z) / EPS + 2 * MACH * np.max(za * D.gabs(z), initial=0.0) / EPS
    # constraints: second derivative of row i bounded by Habs with unit multiplier on row i
    b_con = 0.0
    if m:
        ca = D.cabs(z)
        for i in range(m):
            e = np.zeros(m)
            e[i] = 1.0
            Hi = D.Habs(z, e) - Ha
            b_con = max(b_con, EPS / 2 * np.max(Hi, initial=0.0) + 4 * MACH * ca[i] / EPS
                        + 2 * MACH * np.max(za * Ja[i], initial=0.0) / EPS)
    # gradient of the Lagrangian: third derivatives of softplus terms are bounded by |w|^3*|a|/4 (<= Habs scale);
    # quadratic rows have constant Hessians
    Hl = D.Habs(z, ya)
    gl = D.gabs(z) + Ja.T.dot(ya)
    third = np.max(Hl, initial=0.0) * 2.0
    b_hes = EPS / 2 * third + 4 * MACH * np.max(gl, initial=0.0) / EPS + 2 * MACH * np.max(za[None, :] * Hl, initial=0.0) / EPS
    return float(max(b_obj, b_con, b_hes))


class WorkClock:
    """Stands in for the `time` module inside pygradflow.timer: one second passes per callback evaluation of the
    problem (time is spent in the user's functions), nothing else advances it."""

    def __init__(self):
        import time as _t

        self.T0 = float(int(_t.time()))
        self.ticks = 0

    def time(self):
        return self.T0 + self.ticks

    __call__ = time


class TimedProblem(mon.ProxyProblem):
    def __init__(self, inner, clock):
        super().__init__(inner)
        self.clock = clock

    def _tick(self, v):
        self.clock.ticks += 1
        return v

    def obj(self, x):
        return self._tick(self.inner.obj(x))

    def obj_grad(self, x):
        return self._tick(self.inner.obj_grad(x))

    def cons(self, x):
        return self._tick(self.inner.cons(x))

    def cons_jac(self, x):
        return self._tick(self.inner.cons_jac(x))

    def lag_hess(self, x, y):
        return self._tick(self.inner.lag_hess(x, y))


def run_solve_with(case, prob_wrap, check, time_limit=None):
    from pygradflow.params import DerivCheck

    p = work.prepare(case, record_sites=False, keep_args=False)
    prob = p.inner if prob_wrap is None else prob_wrap(p.inner)
    p.params.deriv_pert = case.get("deriv_pert", 1e-8)
    p.params.deriv_tol = case.get("deriv_tol", 1e-4)
    p.params.deriv_check = {"off": DerivCheck.NoCheck, "all": DerivCheck.CheckAll, "first": DerivCheck.CheckFirst,
                            "second": DerivCheck.CheckSecond}[check]
    clock = None
    if time_limit is not None:
        clock = WorkClock()
        prob = TimedProblem(prob, clock)
        p.params.time_limit = float(time_limit)
    out = mon.run_solve(prob, p.params, p.x0, p.y0, clock=clock)
    out.clock_ticks = clock.ticks if clock else None
    return p, out


def run_case(case):
    from pygradflow.deriv_check import DerivError

    rng = rng_for("C19run", *case["gseed"])
    res = {"viol": [], "ctr": {}}
    ctr = res["ctr"]

    def bump(k, v=1):
        ctr[k] = ctr.get(k, 0) + v

    key = {"scaling": C.normalise(case["cfg"])["scaling"]}

    def bad(kind, what, **kw):
        if len(res["viol"]) < 5:
            res["viol"].append({"what": what, "key": dict(key, kind=kind), "detail": kw})

    p, off = run_solve_with(case, None, "off")
    if off.construct_exc is not None or off.result is None:
        bump("base_unusable")
        return res
    spec = p.spec
    w = work.weights_of(off.solver, spec)
    D = R.internal_dense(p.P, w)
    z0, y0 = R.to_internal_point(p.P, w, work.x0_array(p), work.y0_array(p))
    EPSc = case.get("deriv_pert", 1e-8)
    TOLc = case.get("deriv_tol", 1e-4)
    bound = fd_error_bounds(D, z0, y0, EPSc)
    well_scaled = bound <= 0.1 * TOLc
    bump("params_pert%g_tol%g" % (EPSc, TOLc))
    bump("non_default_checker_parameters", int((EPSc, TOLc) != (1e-8, 1e-4)))
    res["maxes"] = {"fd_error_bound": bound}
    bump("base_runs")
    if case.get("x0_near"):
        xs = work.x0_array(p)
        lbv, ubv = np.asarray(spec.var_lb, float), np.asarray(spec.var_ub, float)
        with np.errstate(invalid="ignore"):
            near = ((xs > lbv) & (xs - lbv < EPSc)) | ((xs < ubv) & (ubv - xs < EPSc))
        bump("bases_with_start_within_pert_of_a_bound", int(bool(np.any(near))))
        bump("start_components_within_pert_of_a_bound", int(np.count_nonzero(near)))
    bump("bases_shared_structure_%s" % case.get("fmt"), int(case.get("policy") == "shared"))
    evals = 1
    nt = 0
    # ---- (a) correct derivatives
    if well_scaled:
        bump("well_scaled_bases")
        for mode in ("all", "first", "second"):
            _, on = run_solve_with(case, None, mode)
            evals += 1
            bump("correct_runs_checked")
            if isinstance(on.exc, DerivError):
                bad("false-positive", "DerivError for correct derivatives (mode %s, column %s, rows %s, max diff %.3e; "
                    "computed FD error bound %.2e)" % (mode, on.exc.col_index, list(on.exc.invalid_indices),
                                                       on.exc.max_deriv_diff, bound), mode=mode)
                continue
            if (on.result is None) != (off.result is None):
                bad("check-changes-outcome", "run with derivative check %s ended differently from the run without" % mode)
                continue
            To, Tn = off.trace.trials, on.trace.trials
            if len(To) != len(Tn) or not all(work.same_trial(a, b) for a, b in zip(To, Tn)) or not (
                    np.array_equal(on.result.x, off.result.x) and np.array_equal(on.result.y, off.result.y)):
                bad("check-alters-solve", "the solve after a passed derivative check (%s) differs from the solve "
                    "without the check" % mode)
            else:
                nt += 1
                bump("correct_runs_identical_shared_structure", int(case.get("policy") == "shared"))
        # the time spent in the check does not count against the solve: with a clock that advances by one second
        # per callback evaluation and a time limit that ends the unchecked solve part-way, the checked solve stops
        # at the same point
        if case["gseed"][-1] % 2 == 0:
            _, free = run_solve_with(case, None, "off", time_limit=1e9)
            total = free.clock_ticks or 0
            if total >= 8 and free.result is not None:
                lim = int(total * float(rng.uniform(0.2, 0.95)))
                _, a = run_solve_with(case, None, "off", time_limit=lim)
                _, b = run_solve_with(case, None, "all", time_limit=lim)
                evals += 3
                bump("timed_pairs_compared")
                if a.result is not None:
                    bump("timed_pairs_stopped_by_time_limit", int(a.result.status.name == "TimeLimit"))
                ok = (a.result is None) == (b.result is None) and not isinstance(b.exc, DerivError)
                if ok and a.result is not None:
                    Ta, Tb = a.trace.trials, b.trace.trials
                    ok = (a.result.status == b.result.status and len(Ta) == len(Tb)
                          and all(work.same_trial(u, v) for u, v in zip(Ta, Tb))
                          and np.array_equal(a.result.x, b.result.x) and np.array_equal(a.result.y, b.result.y))
                if not ok:
                    bad("check-alters-solve", "under a time limit of %d callback evaluations the solve after a passed "
                        "derivative check ends differently (%s) from the solve without the check (%s)"
                        % (lim, work.outcome_class(b), work.outcome_class(a)))
    else:
        bump("bases_outside_well_scaled_class")
    # ---- (b) single corrupted entries
    n, m = spec.n, spec.m
    sv = np.ldexp(1.0, w.vw)
    sc = np.ldexp(1.0, w.cw)
    so = np.ldexp(1.0, w.ow)
    xu = work.x0_array(p)
    yu = work.y0_array(p)
    g_int = D.g(z0)
    J_int = D.J(z0)
    H_int = D.H(z0, y0)
    positions = [("grad", 0, j) for j in range(n)]
    positions += [("jac", i, j) for i in range(m) for j in range(n)]
    positions += [("hess", i, j) for i in range(n) for j in range(n)]
    if len(positions) > 40:
        idx = sorted(rng.choice(len(positions), size=40, replace=False))
        positions = [positions[t] for t in idx]
    for kind, i, j in positions:
        entry = g_int[j] if kind == "grad" else (J_int[i, j] if kind == "jac" else H_int[i, j])
        # magnitude in the internal (checked) problem: safely above atol + rtol*|.| plus the FD error bound
        base = 3.0 * (TOLc + 1e-5 * (abs(entry) + 10.0)) + 10.0 * min(bound, 1.0) + 0.1 * TOLc
        # errors just above the tolerance are the interesting ones: up to 30x in most cases
        dint = base * float(10.0 ** (rng.uniform(0, 1.5) if rng.random() < 0.7 else rng.uniform(0, 4))) * float(rng.choice([-1.0, 1.0]))
        if abs(dint) > 10.0:
            dint = np.sign(dint) * float(rng.uniform(1.0, 10.0)) if base < 1.0 else dint
        dropped = False
        if kind != "grad" and abs(entry) >= base and rng.random() < 0.3:
            # the entry is simply missing from the user's sparse matrix
            dint = -entry
            dropped = True
        # back to the user's space (exact power-of-two factor)
        fac = so / sv[j] if kind == "grad" else (sc[i] / sv[j] if kind == "jac" else so / (sv[i] * sv[j]))
        duser = dint / fac
        mode = "all"
        r = rng.random()
        if r < 0.15:
            mode = "first" if kind != "hess" else "second"
        elif r < 0.25:
            mode = "second" if kind != "hess" else "first"   # the corrupted derivative is not checked
        if dropped:
            duser = None
            bump("corruptions_entry_missing_from_pattern")
        _, on = run_solve_with(case, lambda inner: CorruptProblem(inner, kind, i, j, duser), mode)
        evals += 1
        bump("corruptions_injected")
        bump("corrupt_" + kind)
        expect_error = not ((mode == "first" and kind == "hess") or (mode == "second" and kind != "hess"))
        if not expect_error and dropped and kind == "jac":
            # a Jacobian entry missing from the pattern also changes the function the Hessian check
            # differentiates (grad f + J'y): an error may or may not be raised there -- not judged
            bump("corruptions_not_judged")
            continue
        if not expect_error:
            bump("corruptions_outside_checked_part")
            if isinstance(on.exc, DerivError) and well_scaled:
                bad("unexpected-error", "DerivError although the corrupted %s entry is not covered by mode %s" % (kind, mode))
            continue
        if not isinstance(on.exc, DerivError):
            bad("missed", "%s entry (%d,%d) wrong by %.3e (internal units, |entry| %.3e) was not rejected (mode %s, outcome %s)"
                % (kind, i, j, dint, abs(entry), mode, work.outcome_class(on)), kind_of=kind)
            continue
        e = on.exc
        rows = sorted(int(t) for t in e.invalid_indices)
        want_rows = [0] if kind == "grad" else [i]
        if well_scaled and (e.col_index != j or rows != want_rows):
            bad("wrong-location", "%s entry (%d,%d) corrupted but the error names column %s rows %s"
                % (kind, i, j, e.col_index, rows), kind_of=kind)
        else:
            nt += 1
            bump("pinpointed")
    res["evals"] = evals
    res["nt_n"] = nt
    if case["gseed"][-1] % 30 == 0:
        res["sample"] = {"spec": spec.summary(), "cfg": case["cfg"], "fd_error_bound": bound, "well_scaled": well_scaled,
                         "positions_corrupted": len(positions), "x0": xu}
    return res


def finalize(agg, tier):
    return {
        "rule": "NLP specs (softplus objective terms, quadratic rows, slacks, optional custom power-of-two scaling), n<=6, "
                "random in-bounds starts incl. on-bound components, 30% of the bases unscaled with equality rows only and matrices that share one set of non-canonically ordered index arrays (structure set up once by the user), random or zero starting multipliers; per base problem: "
                "check modes All/First/Second with correct derivatives (and, for every second base, a pair of runs without / with the check under a time limit on a clock that advances with every callback evaluation) (only if the computed forward-difference error bound "
                "is <= a tenth of the tolerance) and up to 40 single-entry corruptions (every gradient / Jacobian / Hessian position when there "
                "are fewer) for default and non-default (deriv_pert, deriv_tol) pairs, with magnitude 1x..30x (30%: up to 1e4x) the safe threshold 3(atol+rtol|entry|), both signs, 30% of the matrix corruptions as an entry missing from the sparsity pattern; 25% of them under a "
                "partial check mode; non-trivial = comparison carried out and as expected; distinct by construction",
        "floors": {"base_runs": 100, "well_scaled_bases": 40, "correct_runs_checked": 120, "corruptions_injected": 2000,
                   "corrupt_grad": 200, "corrupt_jac": 300, "corrupt_hess": 500, "pinpointed": 1500,
                   "corruptions_outside_checked_part": 100, "corruptions_entry_missing_from_pattern": 100,
                   "non_default_checker_parameters": 40, "correct_runs_identical_shared_structure": 30,
                   "bases_shared_structure_csc": 5, "timed_pairs_compared": 20, "timed_pairs_stopped_by_time_limit": 10},
        "assumptions": ["well-scaled class: eps/2*|2nd derivative| + 4*macheps*|f|/eps + 2*macheps*|x_i||d|/eps <= 1e-5 for "
                        "all checked functions of the transformed problem at the start (magnitudes as sums of absolute "
                        "values of terms); location is only judged for bases in that class"],
    }
