"""C18 -- the penalty filter is a Pareto front.

Drives the real `PenaltyFilter.filter_insert` / `update` with exhaustively enumerated
and random sequences of pairs and compares every return value and the stored entries
with an executable set model.
"""
import itertools
from types import SimpleNamespace

import numpy as np

from .. import boot  # noqa: F401
from ..gen import rng_for

LEVEL = "exploration"
SHARDS_PER_JOB = 2


def gen_cases(tier, seed):
    L, G = (4, 3) if tier == "quick" else (5, 4)
    pts = G * G
    cases = [{"kind": "enum", "L": L, "G": G, "p0": a, "p1": b} for a in range(pts) for b in range(pts)]
    nr = 64 if tier == "quick" else 400
    per = 150 if tier == "quick" else 260
    cases += [{"kind": "rand", "seed": [seed, i], "count": per} for i in range(nr)]
    ns = 60 if tier == "quick" else 1500
    cases += [{"kind": "insitu", "seed": [seed, i]} for i in range(ns)]
    return cases


def run_insitu(case):
    """Real solves with the filter penalty policies: every filter_insert / update made by the solver is
    recorded through a class-level wrapper and replayed against the set model afterwards."""
    import pygradflow.penalty as PN

    from .. import mon, work

    rng = rng_for("C18insitu", *case["seed"])
    fam = str(rng.choice(["QP", "NLP", "NLP", "INF"]))
    cfgd = {"penalty": str(rng.choice(["ObjectiveFilter", "LagrangianFilter"])),
            "control": str(rng.choice(["DistanceRatio", "Exact", "Fixed", "ResiduumRatio"])),
            "iteration_limit": int(rng.choice([40, 120])), "rho": float(10.0 ** rng.uniform(-8, 0))}
    c = work.mk_case(fam, case["seed"], cfgd)
    c["y0"] = "rand" if rng.random() < 0.5 else "none"
    p = work.prepare(c, record_sites=False, keep_args=False)
    log = []
    orig_insert = PN.PenaltyFilter.filter_insert
    orig_update = PN.PenaltyFilter.update

    def rec_insert(self, first, second):
        r = orig_insert(self, first, second)
        log.append(("insert", id(self), float(first), float(second), bool(r),
                    sorted((float(a), float(b)) for a, b in self.entries)))
        return r

    def rec_update(self, prev_iterate, next_iterate):
        rho0 = self.rho
        r = orig_update(self, prev_iterate, next_iterate)
        log.append(("update", id(self), rho0, self.rho, r.next_rho, bool(r.accept)))
        return r

    PN.PenaltyFilter.filter_insert = rec_insert
    PN.PenaltyFilter.update = rec_update
    try:
        out = mon.run_solve(p.rec, p.params, p.x0, p.y0)
    finally:
        PN.PenaltyFilter.filter_insert = orig_insert
        PN.PenaltyFilter.update = orig_update
    viol = []
    ctr = {"insitu_runs": 1, "insitu_inserts": 0, "insitu_refusals": 0, "insitu_removals": 0}
    models = {}
    last_insert = {}
    for ev in log:
        if ev[0] == "insert":
            _, fid, a, b, got, ents = ev
            m = models.setdefault(fid, Model())
            exp, removed = m.insert(a, b)
            ctr["insitu_inserts"] += 1
            ctr["insitu_refusals"] += (not exp)
            ctr["insitu_removals"] += removed
            last_insert[fid] = exp
            if got != exp:
                viol.append({"what": "in a real solve the filter %s the entry %r but the model says %s"
                                     % ("accepted" if got else "refused", (a, b), "accept" if exp else "refuse"),
                             "key": {"kind": "insert-decision", "where": "insitu"}})
                break
            if ents != sorted(m.s):
                viol.append({"what": "in a real solve the stored entries %r differ from the model %r" % (ents, sorted(m.s)),
                             "key": {"kind": "entries", "where": "insitu"}})
                break
        else:
            _, fid, rho0, rho1, next_rho, acc = ev
            exp = last_insert.get(fid)
            if exp is None:
                continue
            want = rho0 if exp else rho0 * 10.0
            if acc != exp or rho1 != want or next_rho != want:
                viol.append({"what": "in a real solve an %s insertion led to accept=%s and penalty %r -> %r (expected %r)"
                                     % ("accepted" if exp else "refused", acc, rho0, rho1, want),
                             "key": {"kind": "rho", "where": "insitu"}})
                break
    res = {"viol": viol[:3], "evals": 1, "ctr": ctr}
    if ctr["insitu_refusals"] or ctr["insitu_removals"]:
        res["nt_keys"] = ["insitu-%s" % "-".join(map(str, case["seed"]))]
    return res


class Model:
    """Reference: a set of pairwise non-dominated pairs (kept as a list: duplicates would
    show up as a disagreement)."""

    def __init__(self):
        self.s = []

    def insert(self, a, b):
        if any(e[0] <= a and e[1] <= b for e in self.s):
            return False, 0
        keep = [e for e in self.s if not (a <= e[0] and b <= e[1])]
        removed = len(self.s) - len(keep)
        keep.append((a, b))
        self.s = keep
        return True, removed


def _mk_filter(rho0):
    from pygradflow.params import Params
    from pygradflow.penalty import ObjectivePenaltyFilter

    return ObjectivePenaltyFilter(None, Params(rho=rho0))


def check_sequence(seq, rho0, via_update, viol, ctr):
    """Replays one sequence on a fresh filter; appends violations."""
    flt = _mk_filter(rho0)
    model = Model()
    rho = rho0
    refusals = removals = 0
    for step, (a, b) in enumerate(seq):
        exp, removed = model.insert(a, b)
        if via_update:
            it = SimpleNamespace(obj=a, cons_violation=b)
            res = flt.update(None, it)
            got = bool(res.accept)
            exp_rho = rho if exp else rho * 10.0
            if res.next_rho != exp_rho or flt.rho != exp_rho:
                viol.append({"what": "penalty after %s insertion is %r, expected %r"
                                     % ("accepted" if exp else "refused", res.next_rho, exp_rho),
                             "key": {"kind": "rho"}, "detail": {"seq": seq[: step + 1], "rho0": rho0}})
            rho = exp_rho
        else:
            got = bool(flt.filter_insert(a, b))
        if got != exp:
            viol.append({"what": "insertion of %r %s but model says %s"
                                 % ((a, b), "accepted" if got else "refused", "accept" if exp else "refuse"),
                         "key": {"kind": "insert-decision"}, "detail": {"seq": seq[: step + 1]}})
            return refusals, removals
        ents = sorted((float(x), float(y)) for x, y in flt.entries)
        if ents != sorted(model.s):
            viol.append({"what": "stored entries %r differ from model %r" % (ents, sorted(model.s)),
                         "key": {"kind": "entries"}, "detail": {"seq": seq[: step + 1]}})
            return refusals, removals
        for i, e in enumerate(ents):
            for j, f in enumerate(ents):
                if i != j and e[0] <= f[0] and e[1] <= f[1]:
                    viol.append({"what": "entries not pairwise non-dominated: %r <= %r" % (e, f),
                                 "key": {"kind": "nondominated"}, "detail": {"seq": seq[: step + 1]}})
                    return refusals, removals
        refusals += (not exp)
        removals += removed
        ctr["inserts"] += 1
    return refusals, removals


def run_case(case):
    viol = []
    ctr = {"inserts": 0, "refusals": 0, "removals": 0, "sequences": 0, "sequences_via_update": 0}
    nt = 0
    sample = None
    if case["kind"] == "insitu":
        return run_insitu(case)
    if case["kind"] == "enum":
        L, G = case["L"], case["G"]
        grid = [(float(i), float(j)) for i in range(G) for j in range(G)]
        seqs = []
        if case["p1"] == 0:
            seqs.append([grid[case["p0"]]])
        for extra in range(0, L - 1):
            for tail in itertools.product(range(G * G), repeat=extra):
                seqs.append([grid[case["p0"]], grid[case["p1"]]] + [grid[t] for t in tail])
        for k, seq in enumerate(seqs):
            via = (k % 2 == 0)
            r, rm = check_sequence(seq, 0.5, via, viol, ctr)
            if via:  # the other driving mode as well for short sequences
                ctr["sequences_via_update"] += 1
            if len(seq) <= 3:
                check_sequence(seq, 0.5, not via, viol, ctr)
            ctr["sequences"] += 1
            ctr["refusals"] += r
            ctr["removals"] += rm
            if r or rm:
                nt += 1
            if sample is None and r and rm:
                sample = {"sequence": seq, "refusals": r, "entries_removed": rm}
            if len(viol) > 5:
                break
        return {"viol": viol[:5], "evals": len(seqs), "nt_n": nt, "ctr": ctr, "sample": sample} if sample else \
            {"viol": viol[:5], "evals": len(seqs), "nt_n": nt, "ctr": ctr}
    rng = rng_for("C18", *case["seed"])
    keys = []
    for k in range(case["count"]):
        n = int(rng.integers(1, 41))
        mode = int(rng.integers(0, 4))
        if mode == 0:
            pool = rng.normal(size=int(rng.integers(1, 6)))
            a = rng.choice(pool, size=n)
            b = rng.choice(pool, size=n)
        elif mode == 1:
            a = rng.normal(size=n)
            b = np.abs(rng.normal(size=n))
        elif mode == 2:
            a = 10.0 ** rng.uniform(-300, 300, size=n) * rng.choice([-1, 1], size=n)
            b = 10.0 ** rng.uniform(-300, 300, size=n)
        else:
            pool = np.array([-np.inf, np.inf, 0.0, -0.0, 1.0, 1e308, -1e308, 5e-324])
            a = rng.choice(pool, size=n)
            b = rng.choice(pool, size=n)
        seq = [(float(x), float(y)) for x, y in zip(a, b)]
        rho0 = float(10.0 ** rng.uniform(-8, 2))
        r, rm = check_sequence(seq, rho0, bool(k % 2), viol, ctr)
        ctr["sequences"] += 1
        ctr["sequences_via_update"] += k % 2
        ctr["refusals"] += r
        ctr["removals"] += rm
        if r or rm:
            keys.append("r%s" % hash(tuple(seq)))
        if sample is None and r and rm and n <= 6:
            sample = {"sequence": seq, "rho0": rho0, "refusals": r, "entries_removed": rm}
        if len(viol) > 5:
            break
    out = {"viol": viol[:5], "evals": case["count"], "nt_keys": keys, "ctr": ctr}
    if sample:
        out["sample"] = sample
    return out


def finalize(agg, tier):
    L, G = (4, 3) if tier == "quick" else (5, 4)
    return {
        "rule": "every sequence of length <= %d over a %dx%d grid of pairs (ties and duplicates included), "
                "each replayed on a fresh filter through filter_insert or update, plus random float sequences "
                "of length <= 40 (small value pools, huge magnitudes, +-inf, signed zeros), plus the insertion sequences "
                "that real solves with the ObjectiveFilter / LagrangianFilter policies produce (recorded in situ and "
                "replayed against the model); a sequence is "
                "non-trivial when at least one insertion was refused or removed a stored entry; enumerated "
                "sequences are distinct by construction, random ones are de-duplicated by content" % (L, G, G),
        "floors": {"refusals": 100, "removals": 100, "sequences_via_update": 100, "insitu_inserts": 300,
                   "insitu_refusals": 50, "insitu_removals": 50},
        "exhaustive": True,
        "extra": {"enumeration": {"max_length": L, "grid": G,
                                  "sequences_expected": sum((G * G) ** k for k in range(1, L + 1))}},
        "assumptions": ["exhaustive only over the stated grid and length; random sequences beyond it"],
    }
