"""C08 -- stopping early returns exactly a prefix of the unlimited run.

Crash-point enumeration.  For every base run the unlimited reference trace T is
recorded; then the solve is repeated with iteration_limit = k for every k in
[0, len T + 1] and with a virtual clock that expires at the j-th deadline read for every
j (deadline reads inside the inner Newton loop of the exact controller included).  All
traces are compared bit for bit with prefixes of T.
"""
import numpy as np

from .. import boot  # noqa: F401
from .. import cfg as C
from .. import mon, work
from ..gen import rng_for

LEVEL = "fault_enumeration"
CASE_TIMEOUT = {"quick": 300, "thorough": 600}
SHARDS_PER_JOB = 8
CAP = 40
TIME_LIMIT = 0.5
FIELDS = ("x", "y", "xn", "yn")


def gen_cases(tier, seed):
    rng = rng_for("C08cases", seed)
    cases = []
    nbase = 48 if tier == "quick" else 900
    for k in range(nbase):
        fam = str(rng.choice(["QP", "NLP", "DEG", "NCVX", "UNB"], p=[0.35, 0.35, 0.1, 0.1, 0.1]))
        cfgd = C.sample(rng, {"control": C.CONTROL, "newton": C.NEWTON, "penalty": C.PENALTY,
                              "step_solver": C.STEP_SOLVER, "scaling": ["none", "none", "custom", "GradJac"]})
        if rng.random() < 0.45:
            cfgd["control"] = "Exact"
        if rng.random() < 0.3:
            cfgd["penalty"] = str(rng.choice(["ObjectiveFilter", "LagrangianFilter"]))
        cfgd["rho"] = float(10.0 ** rng.uniform(-3, 0))
        if rng.random() < 0.25:
            cfgd.update(C.rare_params(rng, allow_unvalidated=True))
        cfgd["collect_path"] = bool(rng.random() < 0.3)
        case = work.mk_case(fam, [seed, k], cfgd, gopts=({"n": int(rng.integers(1, 6))} if fam in ("QP", "NLP") else {}))
        case["y0"] = "rand" if rng.random() < 0.4 else "none"
        case["probe"] = bool(k % 4 == 3)
        cases.append(case)
    return cases


same_trial = work.same_trial


def solve(case, limit=None, clock=None, time_limit=None):
    cfgd = dict(case["cfg"])
    cfgd["iteration_limit"] = CAP if limit is None else limit
    cfgd["time_limit"] = TIME_LIMIT if time_limit is None else time_limit
    p = work.prepare(dict(case, cfg=cfgd), record_sites=False, keep_args=False)
    clock = clock or mon.VirtualClock(time_limit=TIME_LIMIT, display_bits=[0])
    cb, holder = None, []
    if case.get("probe"):
        # a user callback that probes one step ahead with the solver's own single-step entry point every third trial
        # (in the reference run and in every limited run alike)
        xs0 = None if p.x0 is None else np.array(p.x0, dtype=float, copy=True)
        ys0 = None if p.y0 is None else np.array(p.y0, dtype=float, copy=True)

        def cb(iterate, next_iterate, accept, _n=[0]):
            _n[0] += 1
            if _n[0] % 3 == 0 and holder:
                try:
                    holder[0].perform_iteration(xs0, ys0)
                except Exception:
                    pass

    out = mon.run_solve(p.rec, p.params, p.x0, p.y0, clock=clock, user_callback=cb, solver_holder=holder)
    return p, out, clock


def expected_state(ref_out, upto):
    """(x, y, d) restored from the last effectively accepted iterate object within T[:upto]."""
    T = ref_out.trace.trials
    eff, _ = work.effective_accepts(ref_out.trace)
    it = None
    for i in range(min(upto, len(T))):
        if eff[i]:
            it = T[i]["next"]
    if it is None:
        if T:
            it = T[0]["iter"]
        else:
            return None
    tr = ref_out.solver.transform
    return tr.restore_sol(it.x, it.y, it.bounds_dual), int(sum(eff[:upto]))


def run_case(case):
    res = {"viol": [], "ctr": {}}
    ctr = res["ctr"]

    def bump(k, v=1):
        ctr[k] = ctr.get(k, 0) + v

    key = work.cfg_key(case["cfg"], "control", "newton", "penalty")
    key["family"] = case["fam"]

    def bad(kind, what, **kw):
        if len(res["viol"]) < 6:
            res["viol"].append({"what": what, "key": dict(key, kind=kind), "detail": kw})

    pr, ref, rclock = solve(case)
    if ref.result is None:
        bump("base_runs_unusable")
        return res
    T = ref.trace.trials
    L = len(T)
    natural = ref.result.status.name
    capped = natural == "IterationLimit" and L >= CAP
    bump("base_runs")
    bump("base_runs_with_probing_callback", int(bool(case.get("probe"))))
    bump("reference_trials", L)
    nreads = rclock.limit_reads
    evals = 1
    nt = 0
    # A deadline that passes while the last step is being computed can only be reported (status TimeLimit, as the
    # statement requires for a deadline expiring "at any moment") if the clock is consulted once more after that
    # step and before the run is declared finished.
    if not capped and natural != "IterationLimit" and L > 0:
        lim = [rd for rd in rclock.reads if rd[0] == "limit"]
        bump("natural_endings_checked")
        if not lim or lim[-1][3] != L - 1 or lim[-1][2] != "_check_terminate":
            bad("deadline-not-checked-at-end", "the run ended %s after %d steps without consulting the deadline after its "
                "last step (last deadline read belongs to step %s, made from %s): a deadline passing during the last step "
                "would go unreported" % (natural, L, lim[-1][3] if lim else None, lim[-1][2] if lim else None))
    # ---------------- iteration budgets
    kmax = L if capped else L + 1
    for k in range(0, kmax + 1):
        p, out, _ = solve(case, limit=k)
        evals += 1
        bump("iteration_budgets_enumerated")
        if out.result is None:
            bad("limit-raised", "run with iteration_limit=%d raised %s while the unlimited run did not"
                % (k, type(out.exc or out.construct_exc).__name__), k=k)
            continue
        r = out.result
        Tk = out.trace.trials
        want = min(k, L)
        if len(Tk) != want or not all(same_trial(a, b) for a, b in zip(Tk, T)):
            bad("limit-prefix", "trace of the run with iteration_limit=%d (%d steps) is not the first %d steps of the "
                "unlimited run" % (k, len(Tk), want), k=k)
            continue
        exp_status = "IterationLimit" if k <= L and not (k == L and capped and False) else natural
        if k > L:
            exp_status = natural
        if r.status.name != exp_status:
            bad("limit-status", "iteration_limit=%d (natural length %d): status %s, expected %s"
                % (k, L, r.status.name, exp_status), k=k)
        if r.iterations != want:
            bad("limit-count", "iteration_limit=%d: iterations=%d, expected %d" % (k, r.iterations, want), k=k)
        es = expected_state(ref, want)
        if es is None:
            # no trial at all in the reference: compare with the reference result itself
            ex, acc = (ref.result.x, ref.result.y, ref.result.d), 0
        else:
            ex, acc = es
        if not (np.array_equal(r.x, ex[0]) and np.array_equal(r.y, ex[1]) and np.array_equal(r.d, ex[2])):
            bad("limit-result", "iteration_limit=%d: returned solution is not the last accepted iterate of the first %d "
                "steps" % (k, want), k=k)
        if r.num_accepted_steps != acc:
            bad("limit-accepted", "iteration_limit=%d: num_accepted_steps=%d, expected %d" % (k, r.num_accepted_steps, acc))
        nt += 1
    # ---------------- deadline positions
    # the same deadlines expressed through the value of time_limit on a clock that advances 0.5 s per read (exact arithmetic):
    # time_limit = 0.5 j expires at read j; j = 0 is a time limit of exactly 0.0 (budget used up before the start)
    ramp_js = sorted(set([0, 1, 2, 5, nreads // 2]) & set(range(nreads)))
    for j, ramp in [(j, False) for j in range(0, nreads + 1)] + [(j, True) for j in ramp_js]:
        if ramp:
            clock = mon.VirtualClock(time_limit=0.5 * j, display_bits=[0], ramp=0.5)
            p, out, clock = solve(case, clock=clock, time_limit=0.5 * j)
            bump("deadlines_by_time_limit_value")
            bump("time_limit_zero_runs", int(j == 0))
        else:
            clock = mon.VirtualClock(expire_at=j, time_limit=TIME_LIMIT, display_bits=[0])
            p, out, clock = solve(case, clock=clock)
        evals += 1
        bump("deadline_positions_enumerated")
        if out.result is None:
            bad("deadline-raised", "run whose deadline expires at clock read %d raised %s"
                % (j, type(out.exc or out.construct_exc).__name__), j=j)
            continue
        r = out.result
        Tj = out.trace.trials
        if j >= nreads:
            # the deadline never passes within the run: identical to the reference
            if len(Tj) != L or not all(same_trial(a, b) for a, b in zip(Tj, T)) or r.status.name != natural:
                bad("deadline-none", "run whose deadline never expires differs from the reference run")
            continue
        # which read expired, and where was it made?
        where = [rd for rd in clock.reads if rd[0] == "limit" and rd[1] == j]
        inside = bool(where and where[0][2] != "_check_terminate")
        bump("deadline_inside_newton_loop", int(inside))
        both = r.status.name == "IterationLimit" and r.iterations == CAP  # both limits reached: the iteration limit is tested first
        if r.status.name != "TimeLimit" and not both:
            bad("deadline-status", "deadline expired at clock read %d but status is %s" % (j, r.status.name), j=j)
            continue
        if r.status.name == "TimeLimit" and not clock.expired_seen:
            bad("deadline-early", "TimeLimit returned although the clock never passed the deadline", j=j)
        aborted = 0
        pfx = len(Tj)
        if Tj and (len(Tj) > L or not same_trial(Tj[-1], T[len(Tj) - 1])):
            # last record must be the aborted attempt of the next reference step
            last = Tj[-1]
            pfx = len(Tj) - 1
            aborted = 1
            ok = ("accepted" in last and not last["accepted"] and last["same"]
                  and (pfx >= L or same_trial(last, T[pfx], inputs_only=True)))
            if not ok:
                bad("deadline-prefix", "trace of the run stopped at clock read %d is not a prefix of the reference "
                    "trace followed by at most one aborted step" % j, j=j)
                continue
            bump("aborted_steps_observed")
        if pfx > L or not all(same_trial(a, b) for a, b in zip(Tj[:pfx], T)):
            bad("deadline-prefix", "trace of the run stopped at clock read %d is not a prefix of the reference trace" % j, j=j)
            continue
        if r.iterations != len(Tj):
            bad("deadline-count", "iterations=%d but %d steps were computed" % (r.iterations, len(Tj)), j=j)
        es = expected_state(ref, pfx)
        if es is None:
            ex, acc = (ref.result.x, ref.result.y, ref.result.d), 0
        else:
            ex, acc = es
        if not (np.array_equal(r.x, ex[0]) and np.array_equal(r.y, ex[1]) and np.array_equal(r.d, ex[2])):
            bad("deadline-result", "deadline at clock read %d: returned solution is not the last iterate accepted before "
                "the stop (prefix of %d steps, %d aborted)" % (j, pfx, aborted), j=j)
        if r.num_accepted_steps != acc:
            bad("deadline-accepted", "deadline at clock read %d: num_accepted_steps=%d, expected %d"
                % (j, r.num_accepted_steps, acc), j=j)
        nt += 1
    res["evals"] = evals
    res["nt_n"] = nt
    bump("control_" + C.normalise(case["cfg"])["control"])
    if case["gseed"][-1] % 12 == 0:
        res["sample"] = {"spec": pr.spec.summary(), "cfg": case["cfg"], "reference_steps": L, "natural_status": natural,
                         "iteration_budgets": kmax + 1, "deadline_reads": nreads}
    return res


def finalize(agg, tier):
    return {
        "rule": "base runs: small QP/NLP/degenerate/nonconvex/unbounded specs x random (controller with 45%% extra weight on "
                "Exact, Newton type, penalty policy with 30%% extra weight on the vetoing filters, step solver, scaling, "
                "collect_path), reference length capped at %d steps; for every base run every iteration budget "
                "k=0..len+1 and every deadline position j=0..#reads (each read of the deadline clock, including those "
                "inside the Newton loop of the exact controller) is executed, a few of the deadlines (reads 0, 1, 2, 5, middle) additionally through the value of time_limit itself (0.5 j on a clock advancing 0.5 s per read; j = 0 is time_limit = 0.0); every (base run, k) and (base run, j) is "
                "distinct by construction and counted as non-trivial when all comparisons were carried out" % CAP,
        "floors": {"base_runs": 20, "iteration_budgets_enumerated": 300, "deadline_positions_enumerated": 500,
                   "deadline_inside_newton_loop": 100, "aborted_steps_observed": 50, "natural_endings_checked": 10,
                   "deadlines_by_time_limit_value": 100, "base_runs_with_probing_callback": 8, "time_limit_zero_runs": 20},
        "exhaustive": True,
        "assumptions": ["the deadline is driven by a virtual clock substituted for time.time inside pygradflow.timer; "
                        "display is off so that the display timer does not interleave reads",
                        "expected result = restoration (by the reference run's own Transformation) of the iterate object "
                        "the reference run held at that moment"],
    }
