"""C10 -- a solve is a deterministic function of its inputs, independent of history.

Differential monitor over in-process histories: a target solve (spec, params, start) is
executed at several positions of a history -- first, again on the same solver object,
on fresh solver objects after solves of other problems / parameters (filters, PI
controllers, scalings interleaved), after a solve that raised, and through the shared
default `Params()` object -- and every execution is compared byte-wise with the first.
"""
import dataclasses

import numpy as np

from .. import boot  # noqa: F401
from .. import cfg as C
from .. import mon, work
from ..gen import rng_for

LEVEL = "exploration"
CASE_TIMEOUT = {"quick": 120, "thorough": 240}
SHARDS_PER_JOB = 6
FAMS = ["QP", "NLP", "NLP", "DEG", "NCVX", "UNB"]


def gen_cases(tier, seed):
    rng = rng_for("C10cases", seed)
    cases = []
    n = 150 if tier == "quick" else 5000
    for k in range(n):
        fam = str(rng.choice(FAMS))
        cfgd = C.sample(rng)
        if rng.random() < 0.3:
            cfgd["penalty"] = str(rng.choice(["ObjectiveFilter", "LagrangianFilter"]))
        cfgd["iteration_limit"] = int(rng.choice([10, 40]))
        if rng.random() < 0.3:
            cfgd["rho"] = float(10.0 ** rng.uniform(-4, 0))
        if rng.random() < 0.25:
            cfgd.update(C.rare_params(rng, allow_unvalidated=True))
        case = work.mk_case(fam, [seed, k], cfgd)
        case["y0"] = "rand" if rng.random() < 0.4 else "none"
        if fam == "NLP":
            case["x0_zero"] = 0    # (only has an effect on specs with x-dependent sparsity patterns)
        # the shared default Params() has no iteration limit: only use it on families that converge
        case["default_params"] = bool(rng.random() < 0.25) and fam in ("QP", "NLP", "DEG")
        case["hist_len"] = int(rng.integers(3, 9))
        # what the user's callbacks hand out: fresh objects, cached / memoised ones, or fresh values on one shared
        # sparsity structure -- a problem object with such state may be solved several times
        case["policy"] = str(rng.choice(["fresh", "fresh", "const", "memo", "shared"]))
        if case["policy"] == "shared" and fam in ("QP", "NLP") and rng.random() < 0.6:
            cfgd["scaling"] = "none"
            case["gopts"] = {"row_force": ["eq"] * 12}
            case["fmt"] = "csc"
        cases.append(case)
    return cases


def snapshot_defaults():
    from pygradflow.solver import Solver

    d = Solver.__init__.__defaults__[0]
    out = {}
    for f in dataclasses.fields(d):
        v = getattr(d, f.name)
        out[f.name] = repr(v)
    return out


def run_target(case, solver=None):
    """-> (p, out).  With `solver` the same solver object is solved again."""
    if solver is not None:
        p, s = solver
        out = mon.Outcome()
        out.result = out.exc = None
        out.construct_exc = None
        out.solver = s
        try:
            out.result = s.solve(p.x0, p.y0)
        except Exception as ex:
            out.exc = ex
            out.kind, out.site = mon.classify_exception(ex)
        out.trace = s.trace
        return p, out
    cfgd = dict(case["cfg"])
    p = work.prepare(dict(case, cfg=cfgd), record_sites=False, keep_args=False)
    if case.get("default_params"):
        # go through the shared default Params() object of Solver.__init__
        from pygradflow.solver import Solver

        p.params = Solver.__init__.__defaults__[0]
        p.params_is_default = True
    out = mon.run_solve(p.rec, p.params, p.x0, p.y0)
    return p, out


def huge_curvature_solve():
    """A solve whose Newton matrices have entries of magnitude 1e160 with condition reporting on (products with the
    transpose overflow inside the estimator); outcome irrelevant."""
    from ..gen import Spec, SpecProblem

    spec = Spec(np.diag([1e160, 1.0]), np.array([0.0, -1.0]), np.zeros((0, 2)), [], np.full(2, -np.inf), np.full(2, np.inf),
                [], [], x0=np.zeros(2), meta={"family": "HUGE"})
    try:
        mon.run_solve(SpecProblem(spec), C.make_params({"iteration_limit": 8, "report_rcond": True}, spec), spec.x0, None)
    except BaseException as ex:
        if type(ex).__name__ == "CaseTimeout":
            raise
    return "huge"


def process_state():
    """process-global state that a solve may not leave changed: numpy's floating-point error handling, the global
    random generators"""
    import random
    import zlib

    st = np.random.get_state()
    return {"numpy_errstate": dict(np.geterr()),
            "numpy_random": (zlib.crc32(st[1].tobytes()), int(st[2])), "random": zlib.crc32(repr(random.getstate()).encode())}


def distractor(rng, seed):
    """Some other solve with different problem/params (may raise)."""
    if rng.random() < 0.15:
        return huge_curvature_solve()
    fam = str(rng.choice(["QP", "NLP", "NCVX", "INF", "UNB"]))
    cfgd = C.sample(rng)
    cfgd["iteration_limit"] = int(rng.choice([5, 25]))
    if rng.random() < 0.3:
        cfgd["lamb_max"] = 4.0  # provoke the deliberate error
    if rng.random() < 0.3:
        cfgd["report_rcond"] = True
    case = work.mk_case(fam, [seed, int(rng.integers(0, 10 ** 6))], cfgd)
    p = work.prepare(case, record_sites=False, keep_args=False)
    out = mon.run_solve(p.rec, p.params, p.x0, p.y0)
    return work.outcome_class(out)


def same_outcome(a, b):
    if (a.result is None) != (b.result is None):
        return "one run returned, the other raised"
    Ta, Tb = a.trace.trials, b.trace.trials
    if len(Ta) != len(Tb):
        return "%d vs %d trial steps" % (len(Ta), len(Tb))
    for i, (x, y) in enumerate(zip(Ta, Tb)):
        if not work.same_trial(x, y):
            return "trial step %d differs" % i
    if a.result is not None:
        ra, rb = a.result, b.result
        if ra.status != rb.status or ra.iterations != rb.iterations or ra.num_accepted_steps != rb.num_accepted_steps:
            return "status/counters differ"
        if not (np.array_equal(ra.x, rb.x) and np.array_equal(ra.y, rb.y) and np.array_equal(ra.d, rb.d)):
            return "solution differs"
        if ra.dist_factor != rb.dist_factor:
            return "dist_factor differs"
    elif type(a.exc) is not type(b.exc) or str(a.exc) != str(b.exc):
        return "different exceptions"
    return None


def run_case(case):
    rng = rng_for("C10hist", *case["gseed"])
    res = {"viol": [], "ctr": {}}
    ctr = res["ctr"]

    def bump(k, v=1):
        ctr[k] = ctr.get(k, 0) + v

    defaults0 = snapshot_defaults()
    state0 = process_state()
    p0, first = run_target(case)
    if first.construct_exc is not None:
        bump("base_unusable")
        return res
    bump("histories")
    key = work.cfg_key(case["cfg"], "control", "penalty", "scaling", "newton")
    key["family"] = case["fam"]
    evals = 1
    nt = 0
    kept = (p0, first.solver)
    for pos in range(case["hist_len"]):
        kind = str(rng.choice(["resolve_same_object", "fresh_after_other", "fresh_after_other", "fresh_immediately",
                               "after_raise", "params_object_reused", "same_problem_object"]))
        if kind == "same_problem_object" and case.get("default_params"):
            kind = "fresh_immediately"
        if kind == "params_object_reused" and case.get("default_params"):
            kind = "fresh_immediately"
        if kind == "params_object_reused":
            # one Params object is first used with other field values (precision, rho, Newton type, ...), then set
            # to the target's values in place and used for the target solve on a fresh solver
            import dataclasses as _dc

            from pygradflow.params import NewtonType, Precision

            pt = work.prepare(dict(case), record_sites=False, keep_args=False)
            target_vals = {f.name: getattr(pt.params, f.name) for f in _dc.fields(pt.params)}
            changed = {"precision": Precision.Single, "rho": 7.0 * pt.params.rho, "newton_type": NewtonType.Full,
                       "lamb_init": 3.0 * pt.params.lamb_init, "iteration_limit": 3}
            pick = [k for k in changed if rng.random() < 0.6] or ["precision"]
            for k in pick:
                setattr(pt.params, k, changed[k])
            try:
                mon.run_solve(pt.rec, pt.params, pt.x0, pt.y0)   # outcome irrelevant (may raise)
            except BaseException as ex:
                if type(ex).__name__ == "CaseTimeout":
                    raise
            for k in pick:
                setattr(pt.params, k, target_vals[k])
            p2 = work.prepare(dict(case), record_sites=False, keep_args=False)
            out = mon.run_solve(p2.rec, pt.params, p2.x0, p2.y0)
            p = p2
            evals += 1
        elif kind == "same_problem_object":
            # the problem object of an earlier execution (with whatever its callbacks cache or share) is first solved
            # under another algorithmic configuration, then the target is solved on a fresh solver for the same object
            pk = kept[0]
            oc = dict(case["cfg"], step_solver=str(rng.choice(C.STEP_SOLVER)), newton=str(rng.choice(["Simplified", "Full"])),
                      linear="LU", iteration_limit=5)
            try:
                mon.run_solve(pk.rec, C.make_params(oc, pk.spec, weights=pk.weights), pk.x0, pk.y0)
            except BaseException as ex:
                if type(ex).__name__ == "CaseTimeout":
                    raise
            pt = work.prepare(dict(case), record_sites=False, keep_args=False)
            out = mon.run_solve(pk.rec, pt.params, pt.x0, pt.y0)
            p = pk
            evals += 1
        elif kind == "resolve_same_object":
            if rng.random() < 0.5:
                # the rarely used single-step entry point on the same object first
                try:
                    kept[1].perform_iteration(kept[0].x0, kept[0].y0)
                    bump("perform_iteration_calls")
                except BaseException as ex:
                    if type(ex).__name__ == "CaseTimeout":
                        raise
            if rng.random() < 0.5:
                # ... or a complete solve from a different start point on the same object first
                from ..gen import start_point

                pk = kept[0]
                xo = start_point(rng, pk.spec.var_lb, pk.spec.var_ub, on_bound_prob=0.5)
                zl = pk.spec.meta.get("zero_lb") or []
                for t, j in enumerate(zl):
                    # the complementary set of variables sits at exactly 0: another stored pattern of equal size
                    hi = pk.spec.var_ub[j] if np.isfinite(pk.spec.var_ub[j]) else 2.0
                    xo[j] = 0.0 if t % 2 == 1 else 0.5 * hi
                try:
                    kept[1].solve(xo, None)
                    bump("other_start_on_same_object")
                except BaseException as ex:
                    if type(ex).__name__ == "CaseTimeout":
                        raise
            p, out = run_target(case, solver=kept)
        else:
            if kind == "fresh_after_other":
                for _ in range(int(rng.integers(1, 3))):
                    oc = distractor(rng, case["gseed"][0])
                    bump("distractor_" + oc.split(":")[0])
                    evals += 1
            elif kind == "after_raise":
                # a solve that raises the deliberate step-size error right before the target
                c2 = dict(case, cfg=dict(case["cfg"], lamb_max=float(case["cfg"].get("lamb_init", 1.0)) * 1.5))
                try:
                    p2 = work.prepare(c2, record_sites=False, keep_args=False)
                    o2 = mon.run_solve(p2.rec, p2.params, p2.x0, p2.y0)
                    bump("preceding_" + work.outcome_class(o2).split("@")[0])
                except Exception:
                    pass
                evals += 1
            p, out = run_target(case)
            if rng.random() < 0.5:
                kept = (p, out.solver)
        evals += 1
        bump("position_" + kind)
        why = same_outcome(first, out)
        if why is not None:
            if len(res["viol"]) < 4:
                res["viol"].append({"what": "the same solve executed at history position %d (%s) differs from its first "
                                            "execution: %s" % (pos + 1, kind, why),
                                    "key": dict(key, kind=kind), "detail": {"position": pos + 1}})
        else:
            nt += 1
    state1 = process_state()
    bump("process_state_comparisons")
    for k in state0:
        if state0[k] != state1[k]:
            res["viol"].append({"what": "process-global state changed across the solves of this history: %s was %s, is %s"
                                        % (k, state0[k], state1[k]), "key": dict(key, kind="process-state", which=k)})
            if k == "numpy_errstate":
                np.seterr(**state0[k])   # (do not let one leak poison the remaining cases of this worker)
    defaults1 = snapshot_defaults()
    if defaults0 != defaults1:
        ch = [k for k in defaults0 if defaults0[k] != defaults1.get(k)]
        res["viol"].append({"what": "the shared default Params() object of Solver.__init__ was modified by a solve: %s" % ch,
                            "key": dict(key, kind="default-params-mutated")})
    bump("default_params_runs", int(bool(case.get("default_params"))))
    res["evals"] = evals
    res["nt_n"] = nt
    if case["gseed"][-1] % 30 == 0:
        res["sample"] = {"spec": p0.spec.summary(), "cfg": case["cfg"], "first_outcome": work.outcome_class(first),
                         "history_length": case["hist_len"], "trial_steps": len(first.trace.trials)}
    return res


def finalize(agg, tier):
    return {
        "rule": "target solves over QP/NLP/degenerate/nonconvex/unbounded specs and random configurations (30% extra "
                "weight on filter penalties; 20% through the shared default Params object), each re-executed at 3-8 history "
                "positions: same solver object again, fresh solver immediately, fresh solver after 1-2 unrelated solves "
                "(other families, parameters, report_rcond, deliberate errors, a problem with curvature 1e160 under condition reporting), fresh solver right after a solve that "
                "raised, fresh solver for the problem object of an earlier execution (callbacks returning fresh / cached / memoised objects or fresh values on a shared sparsity structure) after that object was solved under another configuration; each worker process additionally carries the history of all earlier cases of its shard; a position "
                "is non-trivial when it could be compared step by step and was identical; positions are distinct by "
                "construction",
        "floors": {"histories": 100, "position_resolve_same_object": 70, "position_fresh_after_other": 120,
                   "position_after_raise": 60, "default_params_runs": 5, "position_params_object_reused": 45,
                   "position_same_problem_object": 45, "process_state_comparisons": 100, "distractor_huge": 15},
        "assumptions": ["bit-identical comparison of every trial record, status, counters, x, y, d, dist_factor"],
    }
