"""C15 -- step-size control: rejected steps shrink the step and keep the point.

Trace checker over consecutive trial records of monitored solves (chaining of the
inverse step size, strict increase after rejection/failure, no trial at or beyond
lamb_max, iterate unchanged after a non-accepted trial, accepted steps inside the box)
plus, for exact control, the implicit-Euler residual of every accepted iterate computed
by the dense reference model.  Step failures are produced naturally (singular systems)
and by injection (non-finite evaluations, failing factorisations/solves).
"""
import numpy as np

from .. import boot  # noqa: F401
from .. import cfg as C
from .. import mon, work
from .. import ref as R
from ..gen import rng_for

LEVEL = "exploration"
CASE_TIMEOUT = {"quick": 60, "thorough": 120}
FAMS = ["QP", "NLP", "NLP", "DEG", "NCVX", "NCVX", "UNB"]


def gen_cases(tier, seed):
    rng = rng_for("C15cases", seed)
    cases = []
    n = 800 if tier == "quick" else 20000
    axes = {"control": C.CONTROL, "newton": C.NEWTON, "step_solver": C.STEP_SOLVER, "linear": ["LU", "LU", "GMRES"],
            "penalty": ["DualNorm", "Constant", "ObjectiveFilter"], "active": C.ACTIVE, "scaling": ["none", "none", "custom"]}
    for k in range(n):
        fam = str(rng.choice(FAMS))
        cfgd = C.sample(rng, axes)
        if rng.random() < 0.35:
            cfgd["control"] = "Exact"
        cfgd["iteration_limit"] = int(rng.choice([40, 100]))
        r = rng.random()
        if r < 0.25:
            cfgd["lamb_max"] = float(10.0 ** rng.uniform(0.5, 3))
        if rng.random() < 0.3:
            cfgd["lamb_init"] = float(10.0 ** rng.uniform(-3, 1))
        if rng.random() < 0.3:
            cfgd["rho"] = float(10.0 ** rng.uniform(-4, 1))
        if rng.random() < 0.25:
            cfgd.update(C.rare_params(rng, allow_unvalidated=False))
        case = work.mk_case(fam, [seed, k], cfgd)
        case["y0"] = "rand" if rng.random() < 0.4 else "none"
        f = rng.random()
        if f < 0.3:
            case["fault"] = {"kind": "eval", "component": str(rng.choice(["obj", "obj_grad", "cons", "cons_jac", "lag_hess"])),
                             "index": int(rng.integers(3, 40))}
        elif f < 0.55:
            case["fault"] = {"kind": str(rng.choice(["factor", "solve"])), "index": int(rng.integers(0, 25))}
        elif f < 0.65:
            case["fault"] = {"kind": "region", "radius": float(rng.uniform(0.3, 2.0))}
        if cfgd["control"] == "Exact" and case.get("fault", {}).get("kind") in ("eval", "region") and rng.random() < 0.5:
            # input validation switched off: the non-finite value is not turned into an evaluation error but
            # reaches the controller's own acceptance test (a residual that is not a number is not "below tolerance")
            case["cfg"]["validate_input"] = False
        cases.append(case)
    return cases


def make_fault(case, spec):
    f = case.get("fault")
    if not f:
        return None, None
    if f["kind"] == "eval":
        return mon.Fault(f["component"], f["index"]), None
    if f["kind"] == "region":
        x0 = np.copy(spec.x0) if spec.x0 is not None else np.zeros(spec.n)
        r = f["radius"]
        return mon.Fault(pred=lambda x, x0=x0, r=r: float(np.linalg.norm(x - x0)) > r,
                         components=["obj", "obj_grad", "cons"]), None
    return None, (f["kind"], f["index"])


class ThetaProbe:
    """Reads the contraction ratio `theta` of every trial of the ratio-based step controllers from the frames of the
    running code (sys.settrace on the two `step` functions; nothing is changed)."""

    FILES = ("distance_ratio_control.py", "residuum_ratio_control.py")

    def __init__(self):
        self.thetas = []

    def _local(self, frame, event, arg):
        if event == "return":
            th = frame.f_locals.get("theta")
            if th is not None:
                self.thetas.append(float(th))
        return self._local

    def _global(self, frame, event, arg):
        co = frame.f_code
        if co.co_name == "step" and co.co_filename.endswith(self.FILES):
            return self._local
        return None

    def __enter__(self):
        import sys

        self._old = sys.gettrace()
        sys.settrace(self._global)
        return self

    def __exit__(self, *a):
        import sys

        sys.settrace(self._old)


def tie_runs(case, res):
    """Re-runs the case with theta_max placed on / one ulp beside the contraction ratio observed for one of its trials:
    the acceptance test and everything derived from it then sit on an exact tie."""
    with ThetaProbe() as pr:
        p = work.prepare(case, record_sites=False, keep_args=False)
        mon.run_solve(p.rec, p.params, p.x0, p.y0)
    ths = [t for t in pr.thetas if 1e-6 < t < 0.999]
    if not ths:
        return []
    rng = rng_for("C15tie", *case["gseed"])
    # the ratio of the first trial is reproduced whatever theta_max is; later ones only if no earlier decision flips
    pick = ths[:3] + ([ths[int(rng.integers(3, len(ths)))]] if len(ths) > 3 else [])
    viol = []
    for tm in [t for th in pick for t in (np.nextafter(th, 0.0), th, np.nextafter(th, 1.0))]:
        cfgd = dict(case["cfg"], theta_max=float(tm))
        c2 = dict(case, cfg=cfgd)
        with ThetaProbe() as pr2:
            p2 = work.prepare(c2, record_sites=False, keep_args=False)
            out2 = mon.run_solve(p2.rec, p2.params, p2.x0, p2.y0)
        hit = sum(1 for t in pr2.thetas if abs(t - tm) <= 2 * np.spacing(tm))
        res["ctr"]["tie_runs"] = res["ctr"].get("tie_runs", 0) + 1
        res["ctr"]["trials_on_the_acceptance_threshold"] = res["ctr"].get("trials_on_the_acceptance_threshold", 0) + hit
        if out2.solver is None or not out2.trace.trials:
            continue
        v2, _ = work.check_stepsize(p2, out2, None)
        for v in v2:
            v["what"] = "theta_max on the contraction ratio of a trial (%r): %s" % (float(tm), v["what"])
            v["key"]["tie"] = True
        viol += v2
    return viol


def run_case(case):
    p0 = work.prepare(case, record_sites=False, keep_args=False)
    fault, lin = make_fault(case, p0.spec)
    if fault is not None and case["cfg"].get("validate_input") is False:
        # without validation only NaN is used: an infinite gradient component is clipped away by the projection, so
        # that the equation *as the callbacks define it* may well be solved -- the reference functions cannot judge that
        fault.value = float("nan")
    p = work.prepare(case, fault=fault, record_sites=False, keep_args=False) if fault else p0
    out = mon.run_solve(p.rec, p.params, p.x0, p.y0, lin_fail=lin)
    cls = work.outcome_class(out)
    res = {"viol": [], "ctr": {"solves": 1, "outcome_" + cls.split("@")[0]: 1}}
    if out.solver is None or not out.trace.trials:
        return res
    w = work.weights_of(out.solver, p.spec)
    D = R.internal_dense(p.P, w) if p.cfg["control"] == "Exact" else None
    viol, stats = work.check_stepsize(p, out, D)
    if case["gseed"][-1] % 4 == 0 and out.result is not None and not case.get("fault"):
        # history: the same solver object is used again; the second solve is judged on its own
        out2 = mon.Outcome()
        out2.solver = out.solver
        out2.result = out2.exc = out2.construct_exc = None
        try:
            out2.result = out.solver.solve(p.x0, p.y0)
        except Exception as ex:
            out2.exc = ex
        out2.trace = out.solver.trace
        v2, s2 = work.check_stepsize(p, out2, D)
        for v in v2:
            v["what"] = "second solve on the same solver object: " + v["what"]
            v["key"]["history"] = "resolve"
        viol += v2
        res["ctr"]["resolves_checked"] = 1
        for k in ("pairs", "rejections", "failures", "exact_accepts_checked"):
            stats[k] += s2[k]
    if p.cfg["control"] in ("DistanceRatio", "ResiduumRatio") and not case.get("fault"):
        viol += tie_runs(case, res)
    res["viol"] = viol[:4]
    fired = bool((fault and fault.fired) or (out.factory and out.factory.fired))
    res["ctr"].update({"trial_pairs": stats["pairs"], "rejections": stats["rejections"], "failures": stats["failures"],
                       "exact_accepts_checked": stats["exact_accepts_checked"], "faults_fired": int(fired),
                       "control_" + p.cfg["control"]: 1, "newton_" + p.cfg["newton"]: 1})
    if fired and p.cfg["control"] == "Exact" and p.cfg.get("validate_input") is False:
        res["ctr"]["exact_unvalidated_faults_fired"] = 1
    res["maxes"] = {"exact_residual_over_bound": stats["exact_worst_ratio_e6"] / 1e6}
    if cls == "raise:lamb_max":
        res["ctr"]["lamb_max_aborts"] = 1
    if stats["rejections"] + stats["failures"] > 0:
        res["nt_keys"] = ["%s-%s" % (case["fam"], "-".join(map(str, case["gseed"])))]
    if case["gseed"][-1] % 160 == 0:
        T = out.trace.trials
        res["sample"] = {"spec": p.spec.summary(), "cfg": case["cfg"], "fault": case.get("fault"), "outcome": cls,
                         "trials": [{"dt": t["dt"], "lamb_out": t.get("lamb"), "accepted": t.get("accepted")}
                                    for t in T[:8]]}
    return res


def finalize(agg, tier):
    return {
        "rule": "QP/NLP/degenerate/nonconvex-singular/unbounded specs x random (controller with 35% extra weight on Exact, "
                "Newton type, step solver, LU/GMRES, penalty, active-set rule, scaling) x lamb_max 3..1000 in 25% of the "
                "runs x lamb_init, rho x injected failures in 65% of the runs (k-th evaluation of a component non-finite, "
                "k-th factorisation/solve failing, all evaluations outside a ball around x0 non-finite; the fault-free ratio-controlled runs are repeated with theta_max placed exactly on, one ulp below and one ulp above the contraction ratio read (sys.settrace) from up to four of their trials (the first three and a later one); under exact control half of the evaluation faults run with validate_input=False so that the non-finite value reaches the controller's acceptance test); non-trivial = the "
                "run contained at least one rejected or failed trial; distinct by spec seed",
        "floors": {"trial_pairs": 5000, "rejections": 300, "failures": 50, "lamb_max_aborts": 20,
                   "exact_accepts_checked": 500, "faults_fired": 100, "resolves_checked": 25,
                   "exact_unvalidated_faults_fired": 15, "tie_runs": 300, "trials_on_the_acceptance_threshold": 150},
        "assumptions": ["exact-control residual bound newton_tol + sqrt(n)*1e-8 (activity threshold of the projection) "
                        "+ 1e-12 x magnitude"],
    }
