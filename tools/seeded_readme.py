#!/usr/bin/env python3
import json, os, glob
V = os.path.dirname(os.path.dirname(os.path.abspath(__file__)))
rows = []
for d in sorted(glob.glob(os.path.join(V, "seeded", "*", "meta.json"))):
    m = json.load(open(d)); sid = os.path.basename(os.path.dirname(d))
    rows.append("| %s | %s | %s | %s | %s |" % (sid, m["property"], m["change"], m["needs_to_manifest"], m["checks_run"]))
open(os.path.join(V, "seeded", "README.md"), "w").write(
"# Seeded changes\n\nIndependently written (sub-agents given only the property text and a scratch worktree) changes to "
"chrhansk/pygradflow that break a property while the repository's 209 baseline tests keep passing. Each directory holds "
"`patch.diff` (relative to the repository root, against the repaired tree), `demo.py` (stand-alone demonstration: exit 0 = "
"holds, 1 = violated), the author's `NOTES.md` and `meta.json`. Re-run with `tools/seeded.py verify <id>` and "
"`tools/seeded.py check <id> [checks...]` (scratch copies under /tmp; /repo is not touched).\n\n"
"| id | property | change | needs, to manifest | checks run (quick tier) |\n|---|---|---|---|---|\n" + "\n".join(rows) + "\n")
print(len(rows), "seeded changes")
