#!/usr/bin/env python3
"""Seeded-change evaluation.

  tools/seeded.py verify <id>          # confirm the change: demo passes without / fails with the patch
  tools/seeded.py check <id> [checks]  # run the listed (default: meta.json 'property') quick checks against the patched copy
  tools/seeded.py pytest <id>          # run the repository suite on the patched copy

Works on scratch copies of /repo's working tree under /tmp (removed afterwards); /repo itself is not touched.
"""
import json, os, shutil, subprocess, sys, tempfile, time
V = os.path.dirname(os.path.dirname(os.path.abspath(__file__)))
REPO = "/repo"

def scratch(patch=None):
    tmp = tempfile.mkdtemp(prefix="vfseed_")
    dst = os.path.join(tmp, "repo")
    shutil.copytree(REPO, dst, ignore=shutil.ignore_patterns(".git", "__pycache__", ".pytest_cache"))
    if patch:
        p = subprocess.run(["patch", "-p1", "-s", "-i", patch], cwd=dst, capture_output=True, text=True)
        if p.returncode != 0:
            shutil.rmtree(tmp, ignore_errors=True)
            raise SystemExit("patch failed: " + p.stdout + p.stderr)
    return tmp, dst

def main():
    cmd, sid = sys.argv[1], sys.argv[2]
    d = os.path.join(V, "seeded", sid)
    patch = os.path.join(d, "patch.diff")
    meta = json.load(open(os.path.join(d, "meta.json"))) if os.path.exists(os.path.join(d, "meta.json")) else {}
    if cmd == "verify":
        out = {}
        for label, pt in (("without", None), ("with", patch)):
            tmp, dst = scratch(pt)
            try:
                os.makedirs(os.path.join(dst, "_seed"), exist_ok=True)
                shutil.copy(os.path.join(d, "demo.py"), os.path.join(dst, "_seed", "demo.py"))
                q = subprocess.run(["/venv/bin/python", "_seed/demo.py"], cwd=dst, capture_output=True, text=True, timeout=1200)
                out[label] = q.returncode
                print("demo %s patch: exit %d | %s" % (label, q.returncode, (q.stdout.strip().splitlines() or [""])[-1][:150]))
            finally:
                shutil.rmtree(tmp, ignore_errors=True)
        ok = out["without"] == 0 and out["with"] == 1
        print("VERIFIED" if ok else "NOT VERIFIED")
        return 0 if ok else 1
    if cmd == "pytest":
        tmp, dst = scratch(patch)
        try:
            q = subprocess.run(["/venv/bin/python", "-m", "pytest", "-q", "-p", "no:cacheprovider", "--timeout=900",
                                "--deselect", "tests/pygradflow/test_params.py::test_roundtrip", "-k",
                                "not MA57 and not BoxReduced and not Optimizing"], cwd=dst, capture_output=True, text=True)
            print(q.stdout.strip().splitlines()[-1])
            return q.returncode
        finally:
            shutil.rmtree(tmp, ignore_errors=True)
    if cmd == "check":
        checks = sys.argv[3:] or [meta.get("property", sid[:3])]
        tier = os.environ.get("SEED_TIER", "quick")
        tmp, dst = scratch(patch)
        rc_all = 0
        try:
            for c in checks:
                env = dict(os.environ, VF_REPO=dst, VF_EVIDENCE_DIR=os.path.join(tmp, "ev"), VF_REPLAY_DIR=os.path.join(tmp, "rp"))
                t0 = time.time()
                q = subprocess.run([os.path.join(V, "check"), c, "--tier", tier], env=env, capture_output=True, text=True)
                viol = [l.strip() for l in q.stdout.splitlines() if l.strip().startswith("violation:")]
                print("%s vs seeded %s: rc=%d %.0fs %s" % (c, sid, q.returncode, time.time() - t0,
                      (viol[0][:220] if viol else q.stdout.strip().splitlines()[-1][:200])))
                rc_all = max(rc_all, 0 if q.returncode == 1 else 1)
        finally:
            shutil.rmtree(tmp, ignore_errors=True)
        return rc_all
    raise SystemExit("unknown command")

if __name__ == "__main__":
    sys.exit(main())
