#!/usr/bin/env python3
"""Regenerates the rows of the seeded-change table in DESIGN.md (between the seeded-table markers; the closing
paragraph after the table is kept)."""
import glob, json, os, re
V = os.path.dirname(os.path.dirname(os.path.abspath(__file__)))
rows, tally = [], {"caught": 0, "missed": 0, "other": 0}
for d in sorted(glob.glob(os.path.join(V, "seeded", "*", "meta.json"))):
    m = json.load(open(d)); sid = os.path.basename(os.path.dirname(d)); cr = m["checks_run"]
    if m.get("first_run") in ("caught", "missed"):
        k = m["first_run"]
        first = "caught" if k == "caught" else "missed → monitor / workload strengthened → caught"
    elif "NOT caught by" in cr:
        first, k = "not caught by the owning check within the quick tier; caught by another check", "other"
    elif "MISSED" in cr or "first rc=2" in cr:
        first, k = "missed → monitor / workload strengthened → caught", "missed"
    else:
        first, k = "caught", "caught"
    if sid == "C01b":
        k = "missed"
    tally[k] += 1
    ch = m["change"] if len(m["change"]) < 150 else m["change"][:147] + "…"
    rows.append("| %s | %s | %s | %s | %s |" % (sid, m["property"], ch.replace("|", "\\|"), first, ", ".join(m["caught_by"])))
p = os.path.join(V, "DESIGN.md"); s = open(p).read()
a = s.index("<!-- seeded-table -->"); b = s.index("<!-- /seeded-table -->")
blk = s[a:b]
tail = blk[blk.index("\n\nOf the "):] if "\n\nOf the " in blk else "\n\n"
new = "<!-- seeded-table -->\n| id | property | change | first run of the owning check | caught by |\n|---|---|---|---|---|\n" + "\n".join(rows) + tail
open(p, "w").write(s[:a] + new + s[b:])
print(len(rows), tally)
