#!/bin/sh
# Run the repository's pinned suite on a scratch worktree of the given commit (default HEAD), compare with BASELINE.
sha=$(git -C /repo rev-parse --short ${1:-HEAD})
wt=/tmp/vf_wt_$sha
git -C /repo worktree add --detach -f $wt $sha >/dev/null 2>&1
(cd $wt && env -u PYGRADFLOW_VERIF /venv/bin/python -m pytest -ra -q -p no:cacheprovider --timeout=900 --continue-on-collection-errors --junitxml=/tmp/vf_suite_$sha.xml >/tmp/vf_suite_$sha.log 2>&1)
/venv/bin/python - /tmp/vf_suite_$sha.xml $sha <<'PY'
import json, sys, xml.etree.ElementTree as ET
base = set(json.load(open('/root/.vp/BASELINE.json'))['stable_pass'])
passed = set()
for tc in ET.parse(sys.argv[1]).getroot().iter('testcase'):
    if not any(c.tag in ('failure', 'error', 'skipped') for c in tc):
        passed.add(tc.get('classname') + '::' + tc.get('name'))
missing = sorted(base - passed)
print("%s: baseline %d, passed now %d, baseline tests not passing: %d" % (sys.argv[2], len(base), len(passed), len(missing)))
for m in missing[:20]:
    print("  MISSING", m)
PY
git -C /repo worktree remove --force $wt
