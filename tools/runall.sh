#!/bin/sh
# tools/runall.sh [tier] [seed]  -- runs every claimed check, prints one line each
tier=${1:-quick}; seed=${2:-0}
cd "$(dirname "$0")/.."
for id in C01 C02 C03 C04 C05 C06 C07 C08 C09 C10 C11 C12 C13 C14 C15 C16 C17 C18 C19 C20; do
  s=$(date +%s)
  out=$(VERIF_SEED=$seed ./check $id --tier $tier 2>&1); rc=$?
  e=$(date +%s)
  echo "$id rc=$rc $((e-s))s $(echo "$out" | grep -E 'KNOWN-FINDING|VIOLATION|INCONCLUSIVE' | cut -c1-150 | head -3 | tr '\n' '|')"
done
