#!/bin/sh
# tools/runall.sh [tier] [seed]  -- runs every claimed check, prints one line each; full output under logs/<tier>_<seed>/
tier=${1:-quick}; seed=${2:-0}
cd "$(dirname "$0")/.."
logdir=${VF_LOG_DIR:-$PWD/logs}/${tier}_${seed}
mkdir -p "$logdir"
for id in C01 C02 C03 C04 C05 C06 C07 C08 C09 C10 C11 C12 C13 C14 C15 C16 C17 C18 C19 C20; do
  s=$(date +%s)
  VERIF_SEED=$seed ./check $id --tier $tier > "$logdir/$id.log" 2>&1; rc=$?
  e=$(date +%s)
  cp "${VF_EVIDENCE_DIR:-evidence}/$id.json" "$logdir/$id.evidence.json" 2>/dev/null
  echo "$id rc=$rc $((e-s))s $(grep -E 'KNOWN-FINDING|VIOLATION|INCONCLUSIVE|^[A-Za-z]*Error' "$logdir/$id.log" | cut -c1-150 | head -4 | tr '\n' '|')"
done
