#!/usr/bin/env python3
"""Sensitivity self-test: apply each mutant patch to a scratch copy of the repository
(under /tmp, removed afterwards), run the owning check(s) against it via VF_REPO and
require exit code 1 with a VIOLATION line.

  tools/selftest.py [--tier quick] [--jobs 4] [name-substring ...]

A mutant file selftest/mutants/<name>.mut starts with header lines
  # checks: C18 C12
  # note: free text
followed by one or more replacement blocks
  # file: pygradflow/penalty.py
  <<<<<<<
  old text (must occur exactly once in the file)
  =======
  new text
  >>>>>>>
"""
import argparse, glob, os, shutil, subprocess, sys, tempfile, time, json
from concurrent.futures import ThreadPoolExecutor

V = os.path.dirname(os.path.dirname(os.path.abspath(__file__)))
REPO = os.environ.get("VF_REPO", "/repo")

def header(path):
    checks, note = [], ""
    for line in open(path):
        if line.startswith("# checks:"):
            checks = line.split(":", 1)[1].split()
        elif line.startswith("# note:"):
            note = line.split(":", 1)[1].strip()
        elif not line.startswith("#"):
            break
    return checks, note

def apply_mut(path, dst):
    cur = None; mode = None; old = []; new = []
    for line in open(path):
        if mode is None:
            if line.startswith("# file:"):
                cur = line.split(":", 1)[1].strip()
            elif line.startswith("<<<<<<<"):
                mode = "old"; old = []; new = []
            continue
        if mode == "old" and line.startswith("======="):
            mode = "new"; continue
        if mode == "new" and line.startswith(">>>>>>>"):
            fp = os.path.join(dst, cur)
            src = open(fp).read()
            o = "".join(old); n = "".join(new)
            if src.count(o) != 1:
                return "old text occurs %d times in %s" % (src.count(o), cur)
            open(fp, "w").write(src.replace(o, n))
            mode = None; continue
        (old if mode == "old" else new).append(line)
    return None

def run_one(path, tier, inner_jobs):
    name = os.path.basename(path)[:-4]
    checks, note = header(path)
    tmp = tempfile.mkdtemp(prefix="vfmut_")
    res = {}
    try:
        dst = os.path.join(tmp, "repo")
        shutil.copytree(REPO, dst, ignore=shutil.ignore_patterns(".git", "__pycache__", ".pytest_cache"))
        err = apply_mut(path, dst)
        if err:
            return name, {"_apply": err}
        if os.environ.get("VF_MUT_PYTEST"):
            q = subprocess.run(["/venv/bin/python", "-m", "pytest", "-q", "-x", "-p", "no:cacheprovider", "--timeout=120",
                                "--deselect", "tests/pygradflow/test_params.py::test_roundtrip", "-k", "not MA57 and not BoxReduced and not Optimizing"],
                               cwd=dst, capture_output=True, text=True)
            res["_pytest"] = {"rc": q.returncode, "t": 0, "first": q.stdout.strip().splitlines()[-1][:160]}
        for c in checks:
            env = dict(os.environ, VF_REPO=dst, VF_EVIDENCE_DIR=os.path.join(tmp, "ev"),
                       VF_REPLAY_DIR=os.path.join(tmp, "rp"), VF_JOBS=str(inner_jobs))
            t0 = time.time()
            q = subprocess.run([os.path.join(V, "check"), c, "--tier", tier], env=env, capture_output=True, text=True)
            viol = [l for l in q.stdout.splitlines() if l.strip().startswith("violation:")]
            res[c] = {"rc": q.returncode, "t": round(time.time() - t0, 1),
                      "first": (viol[0].strip()[:160] if viol else q.stdout.strip().splitlines()[-1][:160] if q.stdout.strip() else q.stderr[-160:])}
    finally:
        shutil.rmtree(tmp, ignore_errors=True)
    return name, res

def main():
    ap = argparse.ArgumentParser()
    ap.add_argument("names", nargs="*")
    ap.add_argument("--tier", default="quick")
    ap.add_argument("--jobs", type=int, default=4)
    a = ap.parse_args()
    paths = sorted(glob.glob(os.path.join(V, "selftest", "mutants", "*.mut")))
    if a.names:
        paths = [p for p in paths if any(n in os.path.basename(p) for n in a.names)]
    inner = max(2, (os.cpu_count() or 4) // a.jobs)
    killed = missed = 0
    out = {}
    with ThreadPoolExecutor(a.jobs) as ex:
        for name, res in ex.map(lambda p: run_one(p, a.tier, inner), paths):
            out[name] = res
            for c, r in res.items():
                if c == "_pytest":
                    print("%-44s pytest rc=%d %s" % (name, r["rc"], r["first"])); continue
                if c == "_apply":
                    print("%-44s APPLY-FAILED %s" % (name, r)); missed += 1; continue
                ok = r["rc"] == 1
                killed += ok; missed += (not ok)
                print("%-44s %s %-8s rc=%d %5.1fs  %s" % (name, c, "KILLED" if ok else "MISSED", r["rc"], r["t"], r["first"]))
            sys.stdout.flush()
    print("mutant checks killed=%d missed=%d" % (killed, missed))
    json.dump(out, open(os.path.join(V, "selftest", "last_run.json"), "w"), indent=1)
    return 0 if missed == 0 else 1

if __name__ == "__main__":
    sys.exit(main())
