#!/usr/bin/env python3
"""tools/dump_witness.py <replay.json> <witness/NAME.json> [note]
Stores the problem instance of a replay case as plain data (witness file for the FILE family), independent of the
generators' random streams, and prints the case dict to embed in a check's gen_cases."""
import json, os, sys
V = os.path.dirname(os.path.dirname(os.path.abspath(__file__)))
sys.path[:0] = [V]
from vf import boot  # noqa
import numpy as np
from vf import work

case = json.load(open(sys.argv[1]))["case"]
p = work.prepare(case, record_sites=False, keep_args=False)
s = p.spec
f = lambda a: [repr(float(v)) if not np.isfinite(v) else float(v) for v in np.asarray(a, dtype=float).ravel()]
fs = lambda a: [str(float(v)) for v in np.asarray(a, dtype=float).ravel()]
d = {"Q": s.Q.tolist(), "q": s.q.tolist(), "A": s.A.tolist(), "e": s.e.tolist(), "var_lb": fs(s.var_lb), "var_ub": fs(s.var_ub),
     "cons_lb": fs(s.cons_lb), "cons_ub": fs(s.cons_ub), "x0": np.asarray(work.x0_array(p), dtype=float).tolist(),
     "y0": None if p.y0 is None else np.asarray(p.y0, dtype=float).tolist(),
     "sp_a": s.sp_a.tolist() if s.sp_a.size else None, "sp_W": s.sp_W.tolist() if s.sp_a.size else None,
     "B": None if s.B is None else [None if b is None else np.asarray(b).tolist() for b in s.B],
     "xs": (np.asarray(s.meta["xs"], dtype=float).tolist() if s.meta.get("xs") is not None else None),
     "family": s.meta.get("family"), "note": sys.argv[3] if len(sys.argv) > 3 else ""}
json.dump(d, open(os.path.join(V, sys.argv[2]), "w"))
cfg = dict(case["cfg"])
if p.weights:
    cfg["weights"] = p.weights
out = {"fam": "FILE", "gseed": [0], "cfg": cfg, "gopts": {"path": sys.argv[2]}, "fmt": p.fmt, "dup": int(p.dup), "y0": "none"}
for k in ("log", "display_interval", "deriv_check"):
    if k in case:
        out[k] = case[k]
print(json.dumps(out))
