#!/usr/bin/env python3
"""Regenerates MANIFEST.json from the table below (only properties whose check module exists are claimed)."""
import json, os
V = os.path.dirname(os.path.dirname(os.path.abspath(__file__)))
BASE = ("cd /repo && /venv/bin/python -m pytest -ra -q -p no:cacheprovider --timeout=900 "
        "--continue-on-collection-errors")
T = {
 "C01": ("exploration", "KKT oracle of the user's problem (independent dense model) applied to every Optimal result of monitored solves over generated problems x configurations x scalings", "reference-model oracle on results of real solves"),
 "C02": ("exploration", "every non-Optimal result of monitored solves on infeasible/unbounded/limited runs is judged by user-space oracles and a virtual clock", "result oracle + virtual clock monitor"),
 "C03": ("exploration", "status/iteration monitor on generated strictly convex QPs of the stated class under the listed default-like configurations", "bounded-progress monitor on generated workloads"),
 "C04": ("exploration", "bit-level comparison of the transformed problem's callbacks with an exact ldexp reference composed with the user's callbacks", "differential monitor against exact reference transformation"),
 "C05": ("exploration", "recording wrapper around the user's Problem checks the argument of every callback evaluation and every callback iterate against the box", "bounds sanitizer on hooked callbacks"),
 "C06": ("exploration", "outcome classifier around Solver.solve over hostile configurations: status with finite x,y,d or a deliberate error; anything else is a crash", "exception/outcome monitor under stress workloads"),
 "C07": ("fault_enumeration", "every evaluation index of every component and every factorisation/solve index of short base runs is failed in turn; trace monitor checks recovery and that no faulted point is adopted", "fault injection at enumerated positions + trace checker"),
 "C08": ("fault_enumeration", "every iteration budget and every virtual-clock expiry position of base runs is enumerated; traces must be exact prefixes of the unlimited run", "crash-point enumeration with virtual clock + prefix checker"),
 "C09": ("exploration", "twin runs differing only in observer settings (log level, display schedule scripted through a virtual clock, callbacks, path, rcond) compared byte-wise", "differential trace monitor over observation schedules"),
 "C10": ("exploration", "the same solve repeated at different positions of in-process histories compared byte-wise", "differential trace monitor over solve histories"),
 "C11": ("exploration", "value snapshots of all caller-owned objects before/after solves and twin runs fresh vs cached/memoised callbacks compared byte-wise", "write sanitizer (snapshots) + differential twin runs"),
 "C12": ("exploration", "single-pass checker over the recorded trace of each solve (trials, penalty decisions, callbacks, result, path)", "offline trace checker on recorded event log"),
 "C13": ("exploration", "Iterate / ImplicitFunc return values compared with the dense reference model at generated points", "reference-model oracle on hooked functions"),
 "C14": ("exploration", "newton_method(...).step for every step-solver x linear-solver x Newton-type combination compared with the dense reference Newton step", "differential monitor against dense reference step"),
 "C15": ("exploration", "trace checker over consecutive trial records (chaining of the inverse step size, shrink on rejection, lamb_max abort, exact-control residual)", "online trace checker + reference residual"),
 "C16": ("exploration", "trace checker over the penalty parameter of every trial plus in-situ postconditions on the penalty strategies", "monotonicity monitor on recorded history + runtime contracts"),
 "C17": ("exploration", "real linear solvers judged by a dense residual oracle on generated systems, singular and stagnating cases included", "residual oracle on generated systems"),
 "C18": ("exploration", "exhaustive small-scope enumeration of insertion sequences against an executable set model, plus random sequences", "reference-model monitor, exhaustive small scope"),
 "C19": ("exploration", "solves with the derivative check on, for correct and single-entry-corrupted derivatives at every position", "fault injection into derivatives + outcome oracle"),
 "C20": ("exploration", "returned scaling weights applied to the input data by an independent ldexp oracle", "oracle on outputs over generated data"),
}
checks, na = [], []
for pid, (lvl, text, tech) in sorted(T.items()):
    if os.path.exists(os.path.join(V, "vf", "props", pid + ".py")):
        checks.append({
            "property_id": pid,
            "quick_cmd": "./check %s --tier quick" % pid,
            "thorough_cmd": "./check %s --tier thorough" % pid,
            "evidence_file": "/verif/evidence/%s.json" % pid,
            "replay_cmd_template": "./check %s --replay {path}" % pid,
            "engine": "vf",
            "level_claimed": {"category": lvl, "text": text + "; verdict = held on the executions observed, never more", "design_ref": "DESIGN.md section 3, " + pid},
            "level_note": "trusted: numpy/scipy arithmetic, CPython, the dense reference model vf/ref.py; only configurations runnable in this image (no cyipopt, MA57, MUMPS, SSIDS, Cholesky)",
            "technique": "runtime monitoring: " + tech,
        })
    else:
        na.append({"property_id": pid, "reason": "check not built yet (work in progress; runtime monitoring is applicable, see DESIGN.md)"})
man = {
 "version": 1,
 "setup_cmd": "./check --setup",
 "hooks": {"guard": "PYGRADFLOW_VERIF", "enable": "checks set PYGRADFLOW_VERIF=1 and import pygradflow from /repo's working tree (pure Python, nothing to build); no source hooks were needed: all observation points are reached by subclassing, wrapping and module-attribute substitution from the harness",
           "baseline_off_cmd": BASE, "source_commits": [], "add_only": True},
 "engines": [{"name": "vf", "path": "/verif/vf", "serves_properties": [c["property_id"] for c in checks],
              "kind_free_text": "Python runtime-monitoring harness: generated workloads, recording/fault-injecting wrappers, virtual clock, trace checkers, dense reference model, sharded worker processes"}],
 "checks": checks,
 "notes": "Exit 0 held / 1 violation / 2 inconclusive (deciding monitor not reached). Known findings: /verif/known_findings.json.",
 "not_applicable": na,
}
json.dump(man, open(os.path.join(V, "MANIFEST.json"), "w"), indent=1)
print("claimed", [c["property_id"] for c in checks])
