#!/usr/bin/env python3
"""Validate MANIFEST.json and evidence/*.json against the harness schemas (run with python3-vt)."""
import json, sys, glob, os
import jsonschema
V = os.path.dirname(os.path.dirname(os.path.abspath(__file__)))
ok = True
def val(path, schema):
    global ok
    try:
        jsonschema.validate(json.load(open(path)), json.load(open(schema)))
        print("ok  ", path)
    except Exception as e:
        ok = False
        print("FAIL", path, str(e)[:300])
if os.path.exists(V + "/MANIFEST.json"):
    val(V + "/MANIFEST.json", "/root/.vp/MANIFEST.schema.json")
for f in sorted(glob.glob(V + "/evidence/*.json")):
    val(f, "/root/.vp/EVIDENCE.schema.json")
sys.exit(0 if ok else 1)
