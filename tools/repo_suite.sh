#!/bin/sh
# Run the repository's pinned suite (guard off) and compare with BASELINE stable_pass.
out=${1:-/tmp/vf_suite.xml}
cd /repo && env -u PYGRADFLOW_VERIF /venv/bin/python -m pytest -ra -q -p no:cacheprovider --timeout=900 --continue-on-collection-errors --junitxml=$out >/tmp/vf_suite.log 2>&1
/venv/bin/python - "$out" <<'PY'
import json, sys, xml.etree.ElementTree as ET
base = set(json.load(open('/root/.vp/BASELINE.json'))['stable_pass'])
passed = set()
for tc in ET.parse(sys.argv[1]).getroot().iter('testcase'):
    if not any(c.tag in ('failure', 'error', 'skipped') for c in tc):
        passed.add(tc.get('classname') + '::' + tc.get('name'))
missing = sorted(base - passed)
print("baseline %d, passed now %d, baseline tests not passing: %d" % (len(base), len(passed), len(missing)))
for m in missing[:20]:
    print("  MISSING", m)
sys.exit(1 if missing else 0)
PY
