#!/usr/bin/env python3
"""tools/margins.py [tier]  -- smallest observed/floor ratio of every deciding counter over all logged runs
(logs/<tier>_<seed>/<id>.evidence.json written by tools/runall.sh)."""
import glob, json, os, sys
V = os.path.dirname(os.path.dirname(os.path.abspath(__file__)))
tier = sys.argv[1] if len(sys.argv) > 1 else "quick"
worst = {}
for f in sorted(glob.glob(os.path.join(V, "logs", tier + "_*", "C*.evidence.json"))):
    e = json.load(open(f)); c = e["coverage"]
    for k, fl in (c.get("floors") or {}).items():
        obs = c["counters"].get(k, 0)
        r = obs / fl if fl else float("inf")
        key = (e["property_id"], k)
        if key not in worst or r < worst[key][0]:
            worst[key] = (r, obs, fl, e["seed"])
for (pid, k), (r, obs, fl, seed) in sorted(worst.items(), key=lambda kv: kv[1][0])[:40]:
    print("%-4s %-50s min observed %8d  floor %7d  ratio %5.2f (seed %s)" % (pid, k, obs, fl, r, seed))
